"""Process bootstrap: locate the repo under test, pin the configuration, import pyplate.

Must be imported (and `bootstrap()` called) before anything imports `pyplate`.
"""
import atexit
import os
import shutil
import sys
import tempfile

VERIF_DIR = os.path.dirname(os.path.dirname(os.path.abspath(__file__)))
_state = {}


def repo_dir():
    return os.path.abspath(os.environ.get('VERIF_REPO', '/repo'))


def make_config_dir(overrides=None):
    """Create a run-local directory holding a copy of the shipped pyplate.yaml (optionally with overrides)."""
    import yaml
    src = os.path.join(repo_dir(), 'pyplate', 'pyplate.yaml')
    d = tempfile.mkdtemp(prefix='pyplate-verif-cfg-')
    if overrides:
        with open(src) as f:
            cfg = yaml.safe_load(f)
        for k, v in overrides.items():
            if k == 'precisions':
                cfg['precisions'].update(v)
            else:
                cfg[k] = v
        with open(os.path.join(d, 'pyplate.yaml'), 'w') as f:
            yaml.safe_dump(cfg, f)
    else:
        shutil.copy(src, os.path.join(d, 'pyplate.yaml'))
    return d


def bootstrap(config_dir=None):
    """Put the repo first on sys.path, point PYPLATE_CONFIG at a private copy of the shipped yaml, import pyplate."""
    if 'pyplate' in _state:
        return _state['pyplate']
    rd = repo_dir()
    if not os.path.isdir(os.path.join(rd, 'pyplate')):
        raise RuntimeError(f"no pyplate package under {rd}")
    if sys.path[0] != rd:
        sys.path.insert(0, rd)
    own = config_dir is None
    if own:
        config_dir = os.environ.get('VERIF_CONFIG_DIR')
        own = config_dir is None
        if own:
            config_dir = make_config_dir()
    os.environ['PYPLATE_CONFIG'] = config_dir
    if own:
        atexit.register(shutil.rmtree, config_dir, True)
    os.environ.setdefault('MPLBACKEND', 'Agg')
    sys.dont_write_bytecode = True
    import pyplate  # noqa
    import pyplate.pyplate as pp
    loc = os.path.abspath(os.path.dirname(pp.__file__))
    if not loc.startswith(rd):
        raise RuntimeError(f"pyplate imported from {loc}, expected under {rd}")
    _state['pyplate'] = pp
    return pp


def clear_caches():
    """Reset PyPlate's process-global functools caches (they key on mutable containers)."""
    pp = _state.get('pyplate')
    if pp is None:
        return
    for name in ('has_liquid', 'get_substances', 'dataframe', '__repr__', '_repr_html_'):
        fn = getattr(pp.Container, name, None)
        cc = getattr(fn, 'cache_clear', None)
        if cc:
            cc()
