"""Collector, violation plumbing, known findings, Hypothesis wrappers, sharded runner, evidence writer."""
import hashlib
import json
import os
import re
import sys
import time
import traceback
from collections import Counter

from . import env

QUICK_FACTOR = 3
MAX_ROUNDS = 5          # distinct root causes listed per shard and run
MAX_SAMPLES_SHARD = 4
MAX_SAMPLES = 10


class Violation(Exception):
    """Raised inside a Hypothesis test when a monitor sees a property violation (so that it is shrunk)."""

    def __init__(self, prop, sig, detail):
        super().__init__(f"{prop} {sig}: {detail}")
        self.prop, self.sig, self.detail = prop, sig, detail


class HarnessError(Exception):
    """The harness itself is broken (generator unhealthy, nondeterminism...). Exit code 2, never a violation."""


def derive_seed(seed, *parts):
    h = hashlib.sha256(('|'.join([str(seed)] + [str(p) for p in parts])).encode()).digest()
    return int.from_bytes(h[:8], 'big') % (2 ** 63)


def jsonable(x, depth=0):
    """Best-effort conversion to JSON-serialisable data."""
    from fractions import Fraction
    if depth > 12:
        return repr(x)
    if x is None or isinstance(x, (bool, int, str)):
        return x
    if isinstance(x, float):
        if x != x or x in (float('inf'), float('-inf')):
            return repr(x)
        return x
    if isinstance(x, Fraction):
        return str(x)
    if isinstance(x, dict):
        return {str(k): jsonable(v, depth + 1) for k, v in x.items()}
    if isinstance(x, (list, tuple, set, frozenset)):
        return [jsonable(v, depth + 1) for v in x]
    try:
        import numpy
        if isinstance(x, numpy.generic):
            return jsonable(x.item(), depth + 1)
        if isinstance(x, numpy.ndarray):
            return jsonable(x.tolist(), depth + 1)
    except Exception:
        pass
    return repr(x)


# ------------------------------------------------------------------------------------------------ known findings

KNOWN_FILE = os.path.join(env.VERIF_DIR, 'KNOWN_FINDINGS.txt')
_LINE = re.compile(r'^(open|fixed):\s+property=(\S+)\s+(.*)$')


def load_known(prop):
    """Returns (open_entries, fixed_entries) for one property. open entry: dict(sig, witness, text)."""
    opens, fixed = [], []
    if not os.path.exists(KNOWN_FILE):
        return opens, fixed
    with open(KNOWN_FILE) as f:
        for line in f:
            line = line.rstrip('\n')
            m = _LINE.match(line.strip())
            if not m or m.group(2) != prop:
                continue
            kind, rest = m.group(1), m.group(3)
            if kind == 'fixed':
                fixed.append(rest)
                continue
            ms = re.match(r'sig=(\S+)\s+witness=(\S+)\s+(.*)$', rest)
            if not ms:
                raise HarnessError(f"malformed open line in KNOWN_FINDINGS.txt: {line}")
            opens.append({'sig': ms.group(1), 'witness': ms.group(2), 'text': ms.group(3)})
    return opens, fixed


# ------------------------------------------------------------------------------------------------ collector

def budget(quick, thorough, tier):
    """Case-count budget for a tier, scalable for experiments with VERIF_SCALE (never used by registered cmds)."""
    # the per-check numbers were calibrated first for ~5 s; the registered quick tier runs three times as many
    n = quick * QUICK_FACTOR if tier == 'quick' else thorough
    return max(1, int(n * float(os.environ.get('VERIF_SCALE', '1'))))


class Collector:
    def __init__(self, prop, tier, seed, shard=0, nshards=1, known_sigs=(), replay_mode=False):
        self.prop, self.tier, self.seed, self.shard, self.nshards = prop, tier, seed, shard, nshards
        self.evaluations = 0
        self.nontrivial = set()
        self.classes = Counter()
        self.samples = []
        self.known_sigs = set(known_sigs)
        self.known = {}            # sig -> {'count': n, 'witness': case}
        self.excluded = Counter()  # generator-level exclusions (sound preconditions), counted
        self.muted = set()
        self.target_sig = None
        self.other_sigs = Counter()
        self.last_failure = None
        self.violations = []       # list of dict(sig, detail, case)
        self.replay_mode = replay_mode
        self.replay_hits = []      # in replay mode: every signature seen
        self.enumerated = 0
        self.nontrivial_count = 0   # enumerated cases that are distinct by construction (not stored as keys)
        self.exhaustive = None
        self.notes = []
        self.config = None
        self.enumerating = False
        self.unreproducible = []   # violations seen once that reproduce neither in-process nor from their case
        self._sample_tick = 0

    # counting -------------------------------------------------------------------------------------------
    def case(self, n=1):
        self.evaluations += n

    def label(self, key, n=1):
        self.classes[str(key)] += n

    def nontrivial_key(self, key):
        if not isinstance(key, str):
            key = json.dumps(jsonable(key), sort_keys=True)
        if len(key) > 40:
            key = hashlib.sha1(key.encode()).hexdigest()[:16]
        self.nontrivial.add(key)

    def sample(self, obj_fn):
        """Keep a few actual cases: the first ones and a sparse selection of later ones."""
        self._sample_tick += 1
        t = self._sample_tick
        if len(self.samples) < MAX_SAMPLES_SHARD or (t & (t - 1)) == 0:
            obj = obj_fn() if callable(obj_fn) else obj_fn
            obj = jsonable(obj)
            if len(self.samples) < MAX_SAMPLES_SHARD:
                self.samples.append(obj)
            else:
                self.samples[t.bit_length() % MAX_SAMPLES_SHARD] = obj

    def exclude(self, why, n=1):
        self.excluded[why] += n

    # reporting ------------------------------------------------------------------------------------------
    def report(self, sig, detail, case):
        """A monitor saw a violation with root-cause key `sig`. `case` is a JSON-able replay case or a thunk."""
        sig = re.sub(r'\s+', '_', str(sig))
        if self.config and not self.replay_mode:
            # a case found under a non-default configuration must be replayed under it
            inner = case

            def case(inner=inner, cfg=self.config):
                c = inner() if callable(inner) else inner
                if isinstance(c, dict) and 'config' not in c:
                    c = dict(c, config=cfg)
                return c
        if self.replay_mode:
            self.replay_hits.append({'sig': sig, 'detail': jsonable(detail)})
            return
        if sig in self.known_sigs:
            k = self.known.setdefault(sig, {'count': 0, 'witness': None})
            k['count'] += 1
            if k['witness'] is None:
                k['witness'] = jsonable(case() if callable(case) else case)
            return
        if sig in self.muted:
            return
        if self.enumerating:
            # plain enumeration (no Hypothesis): keep the first (smallest-index) witness per signature, go on
            self.violations.append({'sig': sig, 'detail': jsonable(detail),
                                    'case': jsonable(case() if callable(case) else case)})
            self.muted.add(sig)
            return
        if self.target_sig is None:
            self.target_sig = sig
        if sig != self.target_sig:
            self.other_sigs[sig] += 1
            return
        self.last_failure = {'sig': sig, 'detail': jsonable(detail),
                             'case': jsonable(case() if callable(case) else case)}
        raise Violation(self.prop, sig, detail)

    def enumeration(self):
        col = self

        class _Ctx:
            def __enter__(self_):
                col.enumerating = True

            def __exit__(self_, *a):
                col.enumerating = False
                return False
        return _Ctx()

    def dump(self):
        return {'evaluations': self.evaluations, 'nontrivial': sorted(self.nontrivial),
                'classes': dict(self.classes), 'samples': self.samples, 'known': self.known,
                'excluded': dict(self.excluded), 'violations': self.violations,
                'enumerated': self.enumerated, 'nontrivial_count': self.nontrivial_count, 'exhaustive': self.exhaustive, 'notes': self.notes,
                'other_sigs': dict(self.other_sigs), 'unreproducible': self.unreproducible}


# ------------------------------------------------------------------------------------------------ hypothesis glue

def hyp_settings(max_examples, stateful_step_count=None, shrink=True):
    from hypothesis import settings, HealthCheck, Phase
    phases = [Phase.generate, Phase.target]
    if shrink:
        phases.append(Phase.shrink)
    kw = dict(max_examples=max_examples, deadline=None, database=None, derandomize=False,
              report_multiple_bugs=False, print_blob=False, phases=phases,
              suppress_health_check=[HealthCheck.too_slow, HealthCheck.data_too_large,
                                     HealthCheck.large_base_example])
    if stateful_step_count is not None:
        kw['stateful_step_count'] = stateful_step_count
    return settings(**kw)


def _reproduces_in_fresh_process(col, lf):
    """replay a recorded case with `run.py replay` in a new interpreter (same repo, same configuration)"""
    import subprocess
    import tempfile
    case = lf['case']
    if col.config and isinstance(case, dict) and 'config' not in case:
        case = dict(case, config=col.config)
    with tempfile.NamedTemporaryFile('w', suffix='.json', delete=False) as f:
        json.dump({'property': col.prop, 'sig': lf['sig'], 'case': case}, f)
        path = f.name
    try:
        e = dict(os.environ)
        e.pop('VERIF_PINNED', None)
        r = subprocess.run([sys.executable, os.path.join(env.VERIF_DIR, 'run.py'), 'replay', path],
                           capture_output=True, text=True, env=e, timeout=600)
        return r.returncode == 1
    except Exception:  # noqa
        return False
    finally:
        os.unlink(path)


def run_property(col, make_test, max_examples, tag='', stateful_step_count=None, shrink=True):
    """Run a Hypothesis test (or state machine) until it passes, collecting every distinct root cause.

    make_test() must return either a zero-argument @given-decorated function or a RuleBasedStateMachine class.
    """
    import hypothesis
    from hypothesis.stateful import RuleBasedStateMachine, run_state_machine_as_test
    import hypothesis.errors as herr
    import hypothesis.internal.conjecture.engine as _eng
    # bound the time spent minimising one failure (Hypothesis' own cap is 300 s); a budget, not a verdict
    _eng.MAX_SHRINKING_SECONDS = int(os.environ.get('VERIF_SHRINK_S', 40 if col.tier == 'quick' else 240))
    max_rounds = int(os.environ.get('VERIF_ROUNDS', MAX_ROUNDS))     # sensitivity tools stop at the first root cause
    for rnd in range(max_rounds + 1):
        col.target_sig = None
        col.last_failure = None
        seed = derive_seed(col.seed, col.prop, tag, col.shard)
        st = hyp_settings(max_examples, stateful_step_count, shrink)
        test = make_test()
        try:
            if isinstance(test, type) and issubclass(test, RuleBasedStateMachine):
                run_state_machine_as_test(hypothesis.seed(seed)(test), settings=st)
            else:
                hypothesis.seed(seed)(st(test))()
            return
        except Violation:
            lf = col.last_failure
            if lf is None:
                raise HarnessError("violation without recorded failure")
            col.violations.append(lf)
            col.muted.add(lf['sig'])
            if rnd + 1 >= max_rounds:
                col.notes.append(f"stopped after {max_rounds} root cause(s) in shard {col.shard} (VERIF_ROUNDS)")
                return
        except herr.Flaky as e:
            lf = col.last_failure
            if lf is not None and _reproduces_in_fresh_process(col, lf):
                # the violation was seen, did not repeat on Hypothesis' re-run in this process, but does reproduce
                # from the recorded case in a fresh process: the code under test carries state from call to call
                # (the harness itself is deterministic: same seed, same counts, checked on the unchanged tree)
                lf = dict(lf)
                lf['detail'] = {'observed': lf['detail'], 'note': 'not repeatable within one process (state carried '
                                'between calls); reproduces from this case in a fresh process'}
                col.violations.append(lf)
                col.muted.add(lf['sig'])
                if rnd + 1 >= max_rounds:
                    return
                continue
            if lf is not None:
                # seen once, neither repeatable here nor from the recorded case alone: it depends on what earlier
                # examples left behind. Not reportable as a violation (no replay); remembered, the search goes on.
                col.unreproducible.append({'sig': lf['sig'], 'detail': lf['detail']})
                col.muted.add(lf['sig'])
                if rnd + 1 >= max_rounds:
                    return
                continue
            raise HarnessError(f"flaky test: {e}")
        except herr.FailedHealthCheck as e:
            raise HarnessError(f"generator health check failed: {e}")
        except herr.Unsatisfiable as e:
            raise HarnessError(f"generator unsatisfiable: {e}")
    col.notes.append(f"stopped after {MAX_ROUNDS} distinct root causes in shard {col.shard}; more may exist")


# ------------------------------------------------------------------------------------------------ sharded runner

def _shard_entry(args):
    prop, tier, seed, shard, nshards, known_sigs = args
    t0 = time.time()
    try:
        import importlib
        mod = importlib.import_module(f'checks.{prop.lower()}')
        overrides = mod.shard_config(shard, tier) if hasattr(mod, 'shard_config') else None
        cfgdir = env.make_config_dir(overrides)
        import atexit, shutil
        atexit.register(shutil.rmtree, cfgdir, True)
        env.bootstrap(cfgdir)
        col = Collector(prop, tier, seed, shard, nshards, known_sigs)
        col.config = overrides
        mod.run(col)
        out = col.dump()
        out['wall_s'] = time.time() - t0
        return out
    except BaseException as e:  # harness error in a worker
        return {'harness_error': f"{type(e).__name__}: {e}", 'traceback': traceback.format_exc()}


def _replay_entry(args):
    """Replays a list of cases that share one configuration; returns one hit list per case."""
    prop, cases = args
    try:
        import importlib
        mod = importlib.import_module(f'checks.{prop.lower()}')
        overrides = cases[0].get('config') if isinstance(cases[0], dict) else None
        cfgdir = env.make_config_dir(overrides)
        import atexit, shutil
        atexit.register(shutil.rmtree, cfgdir, True)
        env.bootstrap(cfgdir)
        outs = []
        for case in cases:
            col = Collector(prop, 'quick', 0, replay_mode=True)
            col.config = overrides
            env.clear_caches()
            mod.replay(col, case)
            outs.append(col.replay_hits)
        return {'hits': outs}
    except BaseException as e:
        return {'harness_error': f"{type(e).__name__}: {e}", 'traceback': traceback.format_exc()}


def replay_cases(prop, cases):
    """Re-execute saved cases through the check's plain executor (no Hypothesis), in fresh processes (the
    configuration a case needs is fixed at import time of pyplate). Returns one list of hits per case."""
    import multiprocessing as mp
    groups = {}
    for i, c in enumerate(cases):
        key = json.dumps(c.get('config') if isinstance(c, dict) else None, sort_keys=True, default=str)
        groups.setdefault(key, []).append(i)
    result = [None] * len(cases)
    with mp.get_context('spawn').Pool(min(4, max(1, len(groups)))) as pool:
        outs = pool.map(_replay_entry, [(prop, [cases[i] for i in idx]) for idx in groups.values()])
    for idx, out in zip(groups.values(), outs):
        if 'harness_error' in out:
            sys.stderr.write(out['traceback'])
            raise HarnessError(out['harness_error'])
        for i, h in zip(idx, out['hits']):
            result[i] = h
    return result


def replay_case(prop, case):
    return replay_cases(prop, [case])[0]


def sanitize(sig):
    return re.sub(r'[^A-Za-z0-9_.=-]+', '_', sig)[:80]


def run_check(prop, tier, seed):
    """Parent-side driver: shards, merge, known findings, evidence, exit code."""
    import importlib
    t0 = time.time()
    mod = importlib.import_module(f'checks.{prop.lower()}')
    opens, fixed = load_known(prop)
    known_sigs = [o['sig'] for o in opens]
    nshards = int(os.environ.get('VERIF_SHARDS', 0)) or (mod.SHARDS[tier] if hasattr(mod, 'SHARDS') else
                                                          (4 if tier == 'quick' else 16))
    jobs = [(prop, tier, seed, s, nshards, known_sigs) for s in range(nshards)]
    if True:
        import multiprocessing as mp
        ctx = mp.get_context('spawn')
        with ctx.Pool(min(nshards, os.cpu_count() or 4)) as pool:
            results = pool.map(_shard_entry, jobs, chunksize=1)
    errs = [r for r in results if 'harness_error' in r]
    results = [r for r in results if 'harness_error' not in r]
    for r in errs:
        sys.stderr.write(r['traceback'] + '\n')
    if errs and not any(r['violations'] for r in results):
        print(f"HARNESS-ERROR property={prop} {errs[0]['harness_error']}")
        return 2

    # merge
    evaluations = sum(r['evaluations'] for r in results)
    nontrivial = set()
    classes, excluded, other = Counter(), Counter(), Counter()
    samples, notes = [], []
    known = {}
    violations = {}
    enumerated = 0
    nontrivial_count = 0
    exhaustive = None
    for r in results:
        nontrivial_count += r.get('nontrivial_count', 0)
        nontrivial.update(r['nontrivial'])
        classes.update(r['classes'])
        excluded.update(r['excluded'])
        other.update(r['other_sigs'])
        notes.extend(r['notes'])
        enumerated += r['enumerated']
        if r['exhaustive'] is not None:
            exhaustive = r['exhaustive'] if exhaustive is None else (exhaustive and r['exhaustive'])
        for s in r['samples']:
            if len(samples) < MAX_SAMPLES:
                samples.append(s)
        for sig, k in r['known'].items():
            kk = known.setdefault(sig, {'count': 0, 'witness': k['witness']})
            kk['count'] += k['count']
        for v in r['violations']:
            cur = violations.get(v['sig'])
            if cur is None or len(json.dumps(v['case'])) < len(json.dumps(cur['case'])):
                violations[v['sig']] = v

    # known findings: replay pinned witnesses
    known_report = []
    for o in opens:
        wpath = os.path.join(env.VERIF_DIR, o['witness'])
        try:
            with open(wpath) as f:
                w = json.load(f)
            hits = replay_case(prop, w['case'])
        except Exception as e:
            sys.stderr.write(traceback.format_exc())
            print(f"HARNESS-ERROR property={prop} witness {o['witness']} could not be replayed: {e}")
            return 2
        still = any(h['sig'] == o['sig'] for h in hits)
        # a replayed witness may also expose signatures that are not listed -> those are violations
        for h in hits:
            if h['sig'] not in known_sigs and h['sig'] not in violations:
                violations[h['sig']] = {'sig': h['sig'], 'detail': h['detail'], 'case': w['case']}
        known_report.append({'sig': o['sig'], 'witness': o['witness'], 'still_fails': still,
                             'seen_in_search': known.get(o['sig'], {}).get('count', 0)})
        if still:
            print(f"KNOWN-FINDING: property={prop} {o['text']}")

    # regression tier: saved minimal inputs of repaired findings must stay quiet (replayed without Hypothesis)
    import glob
    reg_files = sorted(glob.glob(os.path.join(env.VERIF_DIR, 'regressions', prop, '*.json')))
    reg_report = {'files': len(reg_files), 'reproducing': 0}
    if reg_files:
        bodies = []
        for rf in reg_files:
            with open(rf) as f:
                bodies.append(json.load(f))
        try:
            hits_list = replay_cases(prop, [b['case'] for b in bodies])
        except HarnessError as e:
            print(f"HARNESS-ERROR property={prop} regression replay failed: {e}")
            return 2
        for rf, b, hits in zip(reg_files, bodies, hits_list):
            for h in hits:
                if h['sig'] in known_sigs:
                    continue
                reg_report['reproducing'] += 1
                if h['sig'] not in violations:
                    violations[h['sig']] = {'sig': h['sig'], 'detail': h['detail'], 'case': b['case']}

    # write replays
    vio_out = []
    for sig, v in sorted(violations.items()):
        d = os.path.join(os.environ.get('VERIF_REPLAY_DIR') or os.path.join(env.VERIF_DIR, 'replays'), prop)
        os.makedirs(d, exist_ok=True)
        body = {'property': prop, 'sig': sig, 'detail': v['detail'], 'case': v['case'], 'seed': seed, 'tier': tier}
        h = hashlib.sha1(json.dumps(body['case'], sort_keys=True).encode()).hexdigest()[:8]
        path = os.path.join(d, f"{sanitize(sig)}-{h}.json")
        with open(path, 'w') as f:
            json.dump(body, f, indent=1, sort_keys=True)
        rel = os.path.relpath(path, env.VERIF_DIR)
        vio_out.append({'sig': sig, 'replay': rel, 'detail': v['detail']})
        print(f"VIOLATION property={prop} replay={rel}")
        print(f"  sig={sig} detail={json.dumps(v['detail'])[:600]}")

    wall = time.time() - t0
    coverage = {
        'evaluations': int(evaluations),
        'distinct_nontrivial': len(nontrivial) + int(nontrivial_count),
        'rule': mod.RULE,
        'samples': samples,
        'classes': dict(sorted(classes.items(), key=lambda kv: (-kv[1], kv[0]))[:120]),
        'excluded_by_generator': dict(excluded),
        'excluded_known': {sig: k['count'] for sig, k in known.items()},
        'known_findings': known_report,
        'regression_replays': reg_report,
        'shards': nshards,
    }
    if enumerated:
        coverage['enumerated'] = int(enumerated)
    if exhaustive is not None:
        coverage['exhaustive'] = bool(exhaustive)
    if notes:
        coverage['notes'] = notes[:20]
    if other:
        coverage['other_signatures_seen_while_shrinking'] = dict(other)
    if vio_out:
        coverage['violation_list'] = vio_out
    evidence = {
        'property_id': prop, 'tier': tier, 'seed': int(seed), 'level': 'exploration',
        'coverage': coverage, 'assumptions': list(getattr(mod, 'ASSUMPTIONS', [])),
        'wall_s': round(wall, 2), 'violations': len(vio_out),
        'repo': env.repo_dir(),
    }
    evdir = os.environ.get('VERIF_EVIDENCE_DIR') or os.path.join(env.VERIF_DIR, 'evidence')
    os.makedirs(evdir, exist_ok=True)
    with open(os.path.join(evdir, f'{prop}.json'), 'w') as f:
        json.dump(evidence, f, indent=1, sort_keys=True)
        f.write('\n')

    # vacuity guard: classes the property names must have been produced
    missing = [c for c in getattr(mod, 'REQUIRED_CLASSES', {}).get(tier, []) if classes.get(c, 0) == 0]
    print(f"{prop} tier={tier} seed={seed} evaluations={evaluations} distinct_nontrivial={len(nontrivial) + int(nontrivial_count)} "
          f"violations={len(vio_out)} known={sum(k['count'] for k in known.values())} wall={wall:.1f}s")
    if vio_out:
        if errs:
            print(f"NOTE property={prop} {len(errs)} shard(s) also ended with a harness error: {errs[0]['harness_error'][:200]}")
        return 1
    unrep = [u for r in results for u in r.get('unreproducible', [])]
    if unrep:
        print(f"HARNESS-ERROR property={prop} {len(unrep)} violation(s) were observed once but reproduce neither in the same "
              f"process nor from their recorded case (state carried over from earlier examples?): {unrep[0]['sig']}")
        return 2
    if missing:
        print(f"HARNESS-ERROR property={prop} generator never produced required classes: {missing}")
        return 2
    if len(nontrivial) + nontrivial_count < 2:
        print(f"HARNESS-ERROR property={prop} fewer than two non-trivial cases")
        return 2
    return 0
