#!/venv/bin/python
"""Sensitivity protocol: apply one mutant (string replacement or patch) to a scratch copy of the repo, confirm the
pinned test-suite still passes there, run a check against the copy with VERIF_REPO, report, delete the copy.

  tools/mutate.py --prop C06 --file pyplate/pyplate.py --old '<text>' --new '<text>' [--count 1] [--no-tests]
  tools/mutate.py --prop C06 --patch seeded/C06-x/patch.diff
  tools/mutate.py --list mutants/C06.json        (list of {name, file, old, new[, nth]})
"""
import argparse
import json
import os
import shutil
import subprocess
import sys
import tempfile

VERIF = os.path.dirname(os.path.dirname(os.path.abspath(__file__)))


def make_copy():
    d = tempfile.mkdtemp(prefix='pyplate-mut-', dir='/var/tmp')
    subprocess.check_call(['git', '-C', '/repo', 'worktree', 'prune'])
    for item in ('pyplate', 'tests', 'pyproject.toml', 'README.md'):
        src = os.path.join('/repo', item)
        if os.path.isdir(src):
            shutil.copytree(src, os.path.join(d, item), ignore=shutil.ignore_patterns('__pycache__'))
        elif os.path.exists(src):
            shutil.copy(src, d)
    return d


def apply_replace(d, file, old, new, nth=None):
    p = os.path.join(d, file)
    s = open(p).read()
    n = s.count(old)
    if n == 0:
        raise SystemExit(f"mutant text not found in {file}: {old!r}")
    if nth is None:
        if n != 1:
            raise SystemExit(f"mutant text occurs {n} times in {file}; give --nth: {old!r}")
        s = s.replace(old, new, 1)
    else:
        parts = s.split(old)
        s = old.join(parts[:nth + 1]) + new + old.join(parts[nth + 1:])
    open(p, 'w').write(s)


def run_tests(d):
    e = dict(os.environ, PYTHONDONTWRITEBYTECODE='1', PYTHONPATH=d)
    r = subprocess.run(['/venv/bin/python', '-m', 'pytest', '-q', '-x', '-p', 'no:cacheprovider', '--timeout=900',
                        'tests'], cwd=d, env=e, capture_output=True, text=True)
    tail = r.stdout.strip().splitlines()[-1] if r.stdout.strip() else r.stderr[-300:]
    return r.returncode == 0, tail


def run_check(d, prop, tier, seed):
    e = dict(os.environ, VERIF_REPO=d, VERIF_SEED=str(seed), VERIF_ROUNDS='1', VERIF_SHRINK_S='10', VERIF_REPLAY_DIR=os.path.join(d, '_replays'),
             VERIF_EVIDENCE_DIR=os.path.join(d, '_evidence'))
    e.pop('VERIF_PINNED', None)
    r = subprocess.run(['/venv/bin/python', os.path.join(VERIF, 'run.py'), 'check', prop, '--tier', tier],
                       cwd=VERIF, env=e, capture_output=True, text=True)
    return r.returncode, r.stdout, r.stderr


def one(prop, tier, seed, tests, file=None, old=None, new=None, nth=None, patch=None, name=''):
    d = make_copy()
    try:
        if patch:
            subprocess.check_call(['git', 'apply', '--unsafe-paths', '--directory', d, os.path.abspath(patch)],
                                  cwd='/')
        else:
            apply_replace(d, file, old, new, nth)
        suite_ok, tail = (True, 'skipped') if not tests else run_tests(d)
        rc, out, err = run_check(d, prop, tier, seed)
        vio = [line for line in out.splitlines() if line.startswith('VIOLATION') or line.startswith('  sig=')]
        status = {0: 'MISSED', 1: 'KILLED', 2: 'HARNESS-ERROR'}.get(rc, f'rc={rc}')
        print(f"[{prop}] {name or (old or patch)!r}: suite={'pass' if suite_ok else 'FAIL'} ({tail}) -> {status}")
        for v in vio[:6]:
            print('    ' + v[:300])
        if rc == 2:
            print(out[-1500:])
            print(err[-3000:])
        return suite_ok, rc
    finally:
        shutil.rmtree(d, ignore_errors=True)


def main():
    ap = argparse.ArgumentParser()
    ap.add_argument('--prop')
    ap.add_argument('--tier', default='quick')
    ap.add_argument('--seed', type=int, default=1)
    ap.add_argument('--file', default='pyplate/pyplate.py')
    ap.add_argument('--old')
    ap.add_argument('--new')
    ap.add_argument('--nth', type=int)
    ap.add_argument('--patch')
    ap.add_argument('--list')
    ap.add_argument('--no-tests', action='store_true')
    ap.add_argument('--only')
    a = ap.parse_args()
    if a.list:
        ms = json.load(open(a.list))
        res = []
        for m in ms:
            if a.only and a.only not in m['name']:
                continue
            props = [a.prop] if a.prop else m['props']
            for prop in props:
                ok, rc = one(prop, a.tier, a.seed, not a.no_tests, m.get('file', 'pyplate/pyplate.py'),
                             m['old'], m['new'], m.get('nth'), None, m['name'])
                res.append((m['name'], prop, ok, rc))
        missed = [r for r in res if r[3] != 1]
        print(f"{len(res) - len(missed)}/{len(res)} killed")
        return 0 if not missed else 1
    ok, rc = one(a.prop, a.tier, a.seed, not a.no_tests, a.file, a.old, a.new, a.nth, a.patch)
    return 0 if rc == 1 else 1


if __name__ == '__main__':
    sys.exit(main())
