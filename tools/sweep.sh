#!/bin/bash
# usage: tools/sweep.sh "C01 C02" "1 2 3" [tier]   -- runs checks at several seeds, prints only non-quiet results
cd "$(dirname "$0")/.."
props=${1:-"C01 C02 C03 C06 C07"}; seeds=${2:-"1 2 3 4 5"}; tier=${3:-quick}
for p in $props; do for s in $seeds; do
  out=$(VERIF_SEED=$s VERIF_EVIDENCE_DIR=/tmp/sweep-evidence VERIF_REPLAY_DIR=${VERIF_REPLAY_DIR:-/tmp/sweep-replays} /venv/bin/python run.py check $p --tier $tier 2>/dev/null); rc=$?
  echo "$p seed=$s rc=$rc $(echo "$out" | grep -c '^VIOLATION') violations; $(echo "$out" | tail -1)"
  [ $rc -ne 0 ] && echo "$out" | grep -A1 '^VIOLATION\|HARNESS' | head -20
done; done
