#!/venv/bin/python
"""Sensitivity by reverting each repaired defect: for every `fix:` commit of /repo the reverse diff is applied to a
scratch copy of the current tree (never to /repo), the pinned suite is run there (it passed before the fix, so it
should pass again) and the check(s) of the property the fix belongs to must report a violation.
Writes a markdown table to stdout.  usage: tools/revert_sweep.py [--only <substring>] [--tier quick]"""
import argparse
import importlib.util
import os
import re
import shutil
import subprocess
import sys
import tempfile

VERIF = os.path.dirname(os.path.dirname(os.path.abspath(__file__)))


def fixed_table():
    src = open(os.path.join(VERIF, 'tools', 'gen_known.py')).read()
    m = re.search(r'FIXED = (\{.*?\n\})\n', src, re.S)
    return eval(m.group(1))


def main():
    ap = argparse.ArgumentParser()
    ap.add_argument('--only')
    ap.add_argument('--tier', default='quick')
    ap.add_argument('--seed', default='1')
    a = ap.parse_args()
    fixed = fixed_table()
    log = subprocess.check_output(['git', '-C', '/repo', 'log', '--reverse', '--format=%h|%s'], text=True).strip().splitlines()
    sys.path.insert(0, os.path.join(VERIF, 'tools'))
    from seedcheck import copy_repo, env_for
    print('| fix commit reverted | properties | applies | suite | check results |')
    print('|---|---|---|---|---|')
    killed = total = 0
    for line in log:
        h, subj = line.split('|', 1)
        if not subj.startswith('fix: '):
            continue
        key = subj[5:]
        if a.only and a.only not in key:
            continue
        props = fixed[key][0].split()
        d = copy_repo()
        try:
            diff = subprocess.check_output(['git', '-C', '/repo', 'diff', h, h + '~1', '--', 'pyplate'], text=True)
            pf = os.path.join(d, '_revert.diff')
            open(pf, 'w').write(diff)
            r = subprocess.run(['patch', '-p1', '-s', '--no-backup-if-mismatch', '-d', d, '-i', pf], capture_output=True, text=True)
            if r.returncode != 0:
                print(f"| {h} {key} | {' '.join(props)} | NO (later fixes touch the same lines) | - | - |")
                continue
            t = subprocess.run(['/venv/bin/python', '-m', 'pytest', '-q', '-x', '-p', 'no:cacheprovider', '--timeout=900', 'tests'],
                               cwd=d, env=env_for(d), capture_output=True, text=True)
            suite = t.stdout.strip().splitlines()[-1] if t.stdout.strip() else 'error'
            res = []
            for prop in props:
                e = dict(os.environ, VERIF_REPO=d, VERIF_SEED=a.seed, VERIF_ROUNDS='1', VERIF_SHRINK_S='10', VERIF_REPLAY_DIR=os.path.join(d, '_replays'),
                         VERIF_EVIDENCE_DIR=os.path.join(d, '_evidence'))
                e.pop('VERIF_PINNED', None)
                c = subprocess.run(['/venv/bin/python', os.path.join(VERIF, 'run.py'), 'check', prop, '--tier', a.tier],
                                   cwd=VERIF, env=e, capture_output=True, text=True)
                nv = sum(1 for ln in c.stdout.splitlines() if ln.startswith('VIOLATION'))
                status = {0: 'MISSED', 1: f'KILLED ({nv} signatures)', 2: 'HARNESS-ERROR'}.get(c.returncode, str(c.returncode))
                res.append(f"{prop}: {status}")
                total += 1
                killed += c.returncode == 1
                if c.returncode == 2:
                    sys.stderr.write(c.stdout[-600:] + c.stderr[-1500:] + '\n')
            print(f"| {h} {key} | {' '.join(props)} | yes | {suite} | {'; '.join(res)} |")
            sys.stdout.flush()
        finally:
            shutil.rmtree(d, ignore_errors=True)
    print(f"\n{killed}/{total} (fix, property) pairs detected when the fix is reverted")


if __name__ == '__main__':
    main()
