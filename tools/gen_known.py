#!/venv/bin/python
"""Rewrites the 'fixed:' lines of KNOWN_FINDINGS.txt from the fix commits in /repo (hashes change when a fix commit is
amended); 'open:' lines and comments are kept as they are.  Run by hand after touching /repo history; never at check time."""
import os, subprocess
HERE = os.path.dirname(os.path.dirname(os.path.abspath(__file__)))
FIXED = {  # commit subject (without 'fix: ') -> (properties, what failed / how it was seen)
 "refuse plate transfers whose source and destination wells overlap": ("C01", "transfer between overlapping regions of one plate (incl. a well into itself) created material: the overlapping well kept only its destination copy [history: transfer p[A:1] -> p[A:1]]"),
 "accept requests that fill a vessel exactly to its capacity": ("C03", "Container('x','1 mL',[(water,'1 mL')]), fill_to('1 mL') on a 1 mL vessel and a transfer filling a well exactly were refused: capacity checks compared an un-rounded float sum with the rounded capacity [exact-capacity grid]"),
 "refuse transfers by mass, moles or activity that exceed what the source holds": ("C03", "over-draw by g / mol / U returned containers with negative contents; a positive request from an empty source raised ZeroDivisionError [signatures refuse/transfer/{g,mol,U}/source-enough/returned, state/transfer/*/negative-amount]"),
 "refuse negative transfer quantities": ("C03", "Container.transfer(a, b, '-0.5 uL') moved material backwards and returned negative amounts [refuse/transfer/*/negative/returned]"),
 "refuse adding a negative amount of a substance to a container": ("C03", "negative initial_contents produced negative amounts; fill_to below the current quantity removed solvent or drove it negative [refuse/container/*/negative-content/returned, refuse/fill_to/*/below-current/returned]"),
 "fill_to counts the volume and mass of enzymes already in the container": ("C03 C11", "fill_to ignored enzymes when computing what is already there: a well holding 25 uL of enzyme filled 'to 37.5 uL' got 37.5 uL more (overflow / overshoot) [accept/fill_to/-/L/raised:ValueError, C11 fill_to misses-target with enzyme bystander]"),
 "accept a transfer of exactly the whole volume of the source": ("C03", "the second of two 2.8 dL aliquots from a 5.6 dL source was refused ('only 280.0 mL available, 280.0 mL needed'): float noise in the volume branch's source-has-enough check [exact-capacity grid, plate-well]"),
 "transfers from several wells into one well raised TypeError": ("C07 C03", "Plate.transfer(slice of N wells -> single well) always raised TypeError (static Container.transfer called on an instance with an argument missing) and wrote the destination's instruction text into the source well"),
 "Plate.transfer accepts a whole Plate as the source": ("C07 C03", "Plate.transfer(plate, other, q) raised AttributeError: 'Plate' object has no attribute 'plate'"),
 "element-wise transfers between two lists of wells raised IndexError": ("C07", "Plate.transfer(p1[[a, b]], p2[[a, b]], q) raised IndexError in Slicer.set (numpy array written through a list of slices)"),
 "a one-element list of wells can be the single side of a plate transfer": ("C07", "plate[['A:1']] as single source of a one-to-many transfer raised RuntimeError('Shape of source should have been (1, 1)')"),
 "PlateSlicer.remove and fill_to no longer re-point the slice they are called on": ("C04", "PlateSlicer.remove / fill_to replaced self.plate with the result, mutating their receiver: the slice the user holds started to show the result, repeated use compounded"),
 "get_concentration no longer divides by the volume rounded to 1e-10 L": ("C10", "get_concentration(x, '<any>/L') divided by get_volume('L'), rounded to a 0.1 nL grain: 4e-6 relative error for a 4.8 uL mixture, 1e-4 for 1 uL"),
 "dilute reaches the requested concentration in any mixture": ("C11", "dilute compared a solute:solvent mole ratio (binary-mixture formula) with the solute's share of all moles: with a third component, bystander enzymes or a solvent not yet present it missed the target (125 instead of 166.667 g/L), refused reachable targets and accepted unreachable ones"),
 "get_human_readable_unit keeps the physical amount it is given": ("C19", "get_human_readable_unit ignored the incoming SI prefix ('250 mg' -> '250.0 g') and kept multiplying values below 1e-6 by 1000 while capping the prefix at micro (0.75 uL shown as '750.0 uL' in transfer / fill / dilute instructions)"),
 "transfer instructions of a source without liquids state the mass that was moved": ("C19", "for a solids/enzymes-only source the 'Transfer ... of ...' text was computed from the already depleted source copy (moving half of 1 g was described as 250 mg)"),
 "create_solution with a container as solvent used moles where the storage unit is meant": ("C05 C18", "create_solution(solvent=<Container>) converted stored micromoles as moles when computing the solvent's effective molar mass/density: every mass- or mole-based request missed its stated values (0.111 g/g -> 0.99999 g/g; total 11.25 g -> 1.25 g)"),
 "create_solution checks over-determined values relative to their size": ("C05", "with concentration and quantity for several solutes, contradictory values smaller than 1e-6 in base units (1 uL, 1 umol) passed the absolute residual test and the result missed a stated quantity"),
 "create_solution_from accepts a total quantity given in moles": ("C12", "quantity in moles failed with 'Singular matrix' (typo: quantity_value == 'mol' instead of quantity_unit)"),
 "create_solution_from counts the mass of enzymes in the stock and solvent containers": ("C12", "enzyme mass ignored in the stock's effective density: a stock with 1.25 g enzyme gave a '15 g' solution weighing 15.6 g"),
 "create_solution_from no longer rounds the stock's moles and volume before dividing": ("C12", "stock molarity/density formed from convert_from_storage results rounded to 1e-10 mol / mL: achieved concentration off by 2e-8 for a 2 mmol stock and 1e-4 for micromole-scale stocks"),
 "a recipe's create_solution step takes its solvent container as it is at that step": ("C08", "bake passed the declaration-time solvent container to create_solution: withdrawn liquid reappeared, a solvent container created/filled inside the recipe was 'empty', and the stale copy overwrote the current one in the results"),
 "removing a substance from part of a plate is reported as discarded": ("C09 C17", "remove on part of a plate while the substance remains elsewhere on it reported nothing discarded (set difference over the whole plate; amounts summed over all wells)"),
 "usage tracking sees the container used as solvent of a create_solution step": ("C09 C15", "a container used only as solvent= of a recipe create_solution step had no recorded flow: get_container_flows reported no outflow, get_amount_remaining returned None, get_substance_used over destinations including it over-counted"),
 "flow tracking and amount remaining work for plates": ("C15", "get_container_flows(plate) always raised TypeError (round() on ndarray); get_amount_remaining(plate) truncated every well to whole numbers when the first well was empty (numpy.vectorize inferred int)"),
 "per-well flows of a plate that is both source and destination of a step": ("C15", "for a same-plate transfer 'in' received the whole per-well difference (negative for source wells) and 'out' again; for a remove step the plate total was added to every well"),
 "a capacity given in a non-volume unit is rejected instead of being read as litres": ("C14", "Container('x','10 g') / Plate('p','5 mmol') discarded the unit of the capacity: '10 g' meant 10 L"),
 "parse_concentration rejects trailing tokens after the denominator unit": ("C14", "'1 ng/10 ng mL' was read as 0.1 g/g: tokens after the first denominator unit were ignored"),
 "parse_concentration rejects an SI prefix glued to a percent sign ('1 m%w/w')": ("C14", "'11 \u00b5%w/w' was read as 1.1e-07 g/g: the percent sign was replaced textually, so any characters before it became a prefix of the unit"),
 "element-wise transfers between two lists of wells lost or created material when a well was named twice": ("C01", "Plate.transfer(p[['A:2','A:2','A:1']], p[[(4,1),'D:2','D:2']], q): all pairs were computed from the original wells and written back afterwards, so a source named twice was drained once (material created) and a destination named twice kept only the last aliquot (material lost)"),
 "a recipe's fill_to step fills a container or a whole plate once, not twice": ("C07", "bake() filled the object and then filled the result again; the second pass only adds rounding noise, which is refused ('Exceeded maximum volume') when the target is the capacity, e.g. a whole plate filled by mass with chloroform: the recipe step raised where the direct call returns"),
 "step-adding calls are refused with RuntimeError once the recipe has been baked": ("C16", "after bake(), remove / dilute / fill_to appended steps to the locked recipe (tracking answers changed) and create_solution(_from) could raise an unrelated ValueError instead of RuntimeError"),
 "a recipe's create_solution refuses a solvent container that was not declared": ("C16", "create_solution(solvent=<undeclared Container>) was accepted, baked and added to the results"),
 "end_stage('all') without an open stage is refused": ("C16", "end_stage('all') with no open stage passed the name check and overwrote the whole-recipe timeframe"),
 "convert_from_storage reads the whole SI prefix of the configured storage units": ("C18", "convert_from_storage took the first character of the configured storage unit as its prefix: 'L' -> 'Invalid prefix: L' crash, 'mol' -> milli, 'damol'/'daL' -> deci; every user-unit answer wrong by a power of ten under those documented settings"),
 "RecipeStep.dataframe converts stored amounts from the storage unit, not from moles": ("C18", "RecipeStep.dataframe(substance=...) for a container converted the stored amount as if it were moles (1e6 too large at the default, different under other storage units)"),
}
log = subprocess.check_output(['git', '-C', '/repo', 'log', '--reverse', '--format=%h|%s'], text=True).strip().splitlines()
path = os.path.join(HERE, 'KNOWN_FINDINGS.txt')
keep = [l.rstrip('\n') for l in open(path) if not l.startswith('fixed:')]
out = list(keep)
missing = []
for line in log:
    h, subj = line.split('|', 1)
    if not subj.startswith('fix: '):
        continue
    key = subj[5:]
    if key not in FIXED:
        missing.append(subj)
        continue
    props, what = FIXED[key]
    for p in props.split():
        out.append(f"fixed: property={p} {h} {what}")
open(path, 'w').write('\n'.join(out) + '\n')
print(len([l for l in out if l.startswith('fixed:')]), 'fixed lines;', 'unmapped fix commits:', missing)
