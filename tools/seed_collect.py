#!/venv/bin/python
"""Collects evaluated seeded changes from /tmp/seed/<ID>/{A,B} into /verif/seeded/<ID>-<X>/ (patch.diff, demo.py,
NOTES.md, meta.json).  Only changes whose claims were confirmed here are kept: demo passes on the clean worktree, the
pinned suite passes with the patch, the demo fails with the patch."""
import json
import os
import re
import shutil
import sys

VERIF = os.path.dirname(os.path.dirname(os.path.abspath(__file__)))
ROOT = os.environ.get('SEED_ROOT', '/tmp/seed')
RENAME = dict(p.split('=') for p in os.environ.get('SEED_RENAME', '').split(',') if p)   # e.g. A=C,B=D for round 2


def main():
    kept, dropped = [], []
    for pid in sorted(d for d in os.listdir(ROOT) if re.fullmatch(r'C\d\d', d)):
        for x in ('A', 'B'):
            d = os.path.join(ROOT, pid, x)
            rf = os.path.join(d, 'result.json')
            if not os.path.exists(rf) or os.path.getsize(rf) == 0:
                continue
            r = json.load(open(rf))
            confirmed = r.get('demo_clean_rc') == 0 and r.get('suite_passes') and r.get('demo_patched_rc', 0) != 0
            if not confirmed:
                dropped.append((pid, x, {k: r.get(k) for k in ('demo_clean_rc', 'suite_passes', 'demo_patched_rc', 'patch_applies')}))
                continue
            out = os.path.join(VERIF, 'seeded', f"{pid}-{RENAME.get(x, x)}")
            os.makedirs(out, exist_ok=True)
            for f in ('patch.diff', 'demo.py', 'NOTES.md'):
                if os.path.exists(os.path.join(d, f)):
                    shutil.copy(os.path.join(d, f), out)
            notes = open(os.path.join(d, 'NOTES.md')).read() if os.path.exists(os.path.join(d, 'NOTES.md')) else ''
            detected = sorted(p for p, c in r.get('checks', {}).items() if c['rc'] == 1)
            missed = sorted(p for p, c in r.get('checks', {}).items() if c['rc'] == 0)
            prev = {}
            mp = os.path.join(out, 'meta.json')
            if os.path.exists(mp):
                prev = json.load(open(mp))
            meta = {
                'property': pid,
                'author': 'independent sub-agent given only the property text and a scratch worktree of /repo',
                'needs_to_manifest': notes.strip()[:1500],
                'confirmed_here': {
                    'demo_on_clean_worktree_exit': r.get('demo_clean_rc'),
                    'pinned_suite_with_patch': r.get('suite'),
                    'demo_with_patch_exit': r.get('demo_patched_rc'),
                    'demo_with_patch_tail': (r.get('demo_patched_tail') or '')[-300:],
                    'applies_to_current_repo_tree': r.get('patch_applies'),
                    'how': 'tools/seedcheck.py: git apply in the scratch worktree, pytest, demo with/without the patch; then '
                           'the patch on a scratch copy of /repo (VERIF_REPO) and the quick check(s)',
                },
                'checks_run': {p: {'exit': c['rc'], 'wall_s': c['wall_s'], 'signatures': c.get('signatures', [])[:3]}
                               for p, c in r.get('checks', {}).items()},
                'detected_by': sorted(set(detected) | set(prev.get('detected_by', []))),
                'missed_by_quick_at_seed_1': missed,
                'history': prev.get('history', []),
            }
            json.dump(meta, open(mp, 'w'), indent=1)
            kept.append((pid, x, detected, missed))
    for k in kept:
        print('kept', *k)
    for d in dropped:
        print('DROPPED', *d)


if __name__ == '__main__':
    sys.exit(main())
