NOTES = ("All checks are property-based / generated-input searches driven by Hypothesis (seeded from VERIF_SEED) "
         "or complete enumeration of finite sub-spaces, against explicit oracles (refchem reference model, "
         "differentials, metamorphic relations). See DESIGN.md. Exit 2 = harness error, never a violation.")
ENGINES = [
    {'name': 'E1-bench', 'path': 'engines/bench.py', 'serves_properties': ['C01', 'C02', 'C03', 'C04', 'C07', 'C10', 'C11', 'C17', 'C19'],
     'kind_free_text': 'Hypothesis RuleBasedStateMachine over the direct Container/Plate API with JSON-IR histories, state-aware generation, one monitor per property'},
    {'name': 'E2-programs', 'path': 'engines/programs.py', 'serves_properties': ['C08', 'C09', 'C15', 'C17', 'C04', 'C03', 'C19'],
     'kind_free_text': 'Hypothesis-generated recipe programs run through Recipe.bake, an eager fold of direct calls and a refchem ledger'},
    {'name': 'E3-tables', 'path': 'checks/c06.py', 'serves_properties': ['C06', 'C13', 'C14'],
     'kind_free_text': 'complete enumeration of finite tables / grammars x Hypothesis-generated parameters vs reference resolvers and parsers'},
    {'name': 'E4-lifecycle', 'path': 'checks/c16.py', 'serves_properties': ['C16'],
     'kind_free_text': 'bounded-exhaustive call sequences + RuleBasedStateMachine vs a reference protocol model'},
    {'name': 'E5-crossconfig', 'path': 'checks/c18.py', 'serves_properties': ['C18'],
     'kind_free_text': 'same generated script executed in worker processes under different pyplate.yaml storage configurations'},
]
_BENCH_NOTE = ('Trusts refchem (first-principles sizes/concentrations), the derived rounding-tolerance calculus of DESIGN.md 3.1, '
               'and Hypothesis as generator; bounds: plates <= 4x4 (quick) / 8x12 (thorough), histories <= 25 / 40 steps.')
CHECKS = {
    'C01': dict(engine='E1-bench', technique='stateful property-based testing (Hypothesis rule-based machine), conservation invariant over histories',
                text='Every transfer executed along generated histories (all pairing forms, all unit families and prefixes, same-plate disjoint regions, list/stepped/rect slices) is checked for per-substance conservation over the distinct physical vessels and for identity of all unaddressed wells. Exploration over generated histories; no proof of absence beyond the explored sizes.',
                note=_BENCH_NOTE, design_ref='DESIGN.md 4 C01'),
    'C02': dict(engine='E1-bench', technique='stateful property-based testing vs sequential reference simulation; metamorphic chain relation',
                text='Each successful feasible transfer is compared well by well and substance by substance with a sequential reference simulation of uniform aliquots of size q in the unit of q; chains of up to 30 transfers are compared with the equivalent single transfer.',
                note=_BENCH_NOTE, design_ref='DESIGN.md 4 C02'),
    'C03': dict(engine='E1-bench', technique='stateful property-based testing with reference feasibility margins and a dont-care rounding band; enumerated exact-capacity grid',
                text='State invariant (no negative amounts/volume, volume <= capacity, finite) on every object returned along generated histories with requests on both sides of each feasibility boundary; accept/refuse verdicts from reference margins for constructor, transfer, fill_to; exact-capacity grid enumerated.',
                note=_BENCH_NOTE, design_ref='DESIGN.md 4 C03'),
    'C04': dict(engine='E1-bench', technique='stateful property-based testing: structural fingerprints of arguments before/after every call and of every pooled value after every step',
                text='Fingerprints of all arguments (containers, plates, slices, substances, argument lists) are compared before and after every call including failing calls; every object ever returned is re-fingerprinted after every later step (aliasing). Recipe half: objects handed to a recipe are unchanged by uses/steps/bake.',
                note=_BENCH_NOTE, design_ref='DESIGN.md 4 C04'),
    'C06': dict(engine='E3-tables', technique='property-based testing: exhaustive unit-table enumeration x Hypothesis-generated substances/amounts vs reference factors; algebraic laws',
                text='Every (from,to) unit pair with every supported prefix is enumerated for each of many generated substances of each kind and compared with an independent first-principles factor; linearity, composition and round-trip are checked on the implementation directly; three default-density configurations. Exploration: substances/amounts are sampled, the unit table is complete.',
                note='Trusts refchem factors (mass=mol*MW, volume=mass/density, activity=mass*SA) and IEEE double arithmetic (relative 1e-12).',
                design_ref='DESIGN.md 4 C06'),
    'C07': dict(engine='E1-bench', technique='stateful property-based differential testing: plate/slice operation vs the same Container operation per addressed well; one-step recipe variant',
                text='Every plate/slice operation along generated histories is compared with the stand-alone container operation applied to copies of the addressed wells; unaddressed wells must be identical; the shape rule is checked on legal and illegal shape combinations; each operation is also run as a one-step recipe.',
                note=_BENCH_NOTE + ' Oracle is the library itself at container granularity.', design_ref='DESIGN.md 4 C07'),
    'C10': dict(engine='E1-bench', technique='stateful property-based testing: observer pseudo-operations interleaved with histories vs reference definitions',
                text='Observers (volume attribute, get_volume, get_substances, get_concentration in 26 unit spellings, plate/slice get_volumes / get_moles / get_volume / get_substances) are evaluated on pooled objects after arbitrary histories and compared with refchem definitions rounded to the configured precision.',
                note=_BENCH_NOTE, design_ref='DESIGN.md 4 C10'),
    'C11': dict(engine='E1-bench', technique='stateful property-based testing vs closed-form reference (solvent amount s with N/(D0+s*d)=c)',
                text='dilute and fill_to on containers reached by histories (binary, multi-component, enzyme bystanders, solvent absent) are checked for only-solvent-increases, reaching the target in the requested unit, and refusal on the wrong side of the boundary / capacity.',
                note=_BENCH_NOTE, design_ref='DESIGN.md 4 C11'),
}
_P = 'check under construction in this session; not claimed until its check is registered'
PENDING = {k: _P for k in ['C05','C08','C09','C12','C13','C14','C15','C16','C17','C18','C19']}
