NOTES = ("All checks are property-based / generated-input searches driven by Hypothesis (seeded from VERIF_SEED) "
         "or complete enumeration of finite sub-spaces, against explicit oracles (refchem reference model, "
         "differentials, metamorphic relations). See DESIGN.md. Exit 2 = harness error, never a violation.")
ENGINES = [
    {'name': 'E3-tables', 'path': 'checks/c06.py', 'serves_properties': ['C06'],
     'kind_free_text': 'complete unit-table enumeration per Hypothesis-generated substance vs first-principles factors'},
]
CHECKS = {
    'C06': dict(engine='E3-tables', technique='property-based testing: exhaustive unit-table enumeration x Hypothesis-generated substances/amounts vs reference factors; algebraic laws',
                text='Every (from,to) unit pair with every supported prefix is enumerated for each of many generated substances of each kind and compared with an independent first-principles factor; linearity, composition and round-trip are checked on the implementation directly; three default-density configurations. Exploration: substances/amounts are sampled, the unit table is complete.',
                note='Trusts refchem factors (mass=mol*MW, volume=mass/density, activity=mass*SA) and IEEE double arithmetic (relative 1e-12).',
                design_ref='DESIGN.md §4 C06'),
}
_P = 'check under construction in this session; not claimed until its check is registered'
PENDING = {k: _P for k in ['C01','C02','C03','C04','C05','C07','C08','C09','C10','C11','C12','C13','C14','C15','C16','C17','C18','C19']}
