#!/venv/bin/python
"""Prints the markdown table of DESIGN.md §11 from /verif/seeded/*/meta.json and NOTES.md."""
import json
import os
import re

VERIF = os.path.dirname(os.path.dirname(os.path.abspath(__file__)))


def main():
    print('| id | the change (author\'s title) | detected by (quick tier, VERIF_SEED=1) | found only after strengthening |')
    print('|---|---|---|---|')
    n = own = 0
    for sid in sorted(os.listdir(os.path.join(VERIF, 'seeded'))):
        d = os.path.join(VERIF, 'seeded', sid)
        meta = json.load(open(os.path.join(d, 'meta.json')))
        title = ''
        if os.path.exists(os.path.join(d, 'NOTES.md')):
            title = open(os.path.join(d, 'NOTES.md')).readline().strip().lstrip('# ').strip()
            title = re.sub(r'^(C\d\d\s*/\s*)?(change|seed)\s+[AB]\s*[-–—:]+\s*', '', title, flags=re.I)
        det = meta.get('detected_by', [])
        prop = meta['property']
        n += 1
        own += prop in det
        shown = ', '.join(f"**{p}**" if p == prop else p for p in det) or 'MISSED'
        hist = 'yes' if any(not h.startswith('the checks were run against') for h in meta.get('history', [])) else ''
        print(f"| {sid} | {title.replace('|', '/')} | {shown} | {hist} |")
    print(f"\n{n} changes, {own} detected by the check of the property they were written against")


if __name__ == '__main__':
    main()
