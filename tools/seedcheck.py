#!/venv/bin/python
"""Evaluate one seeded change: tools/seedcheck.py <dir with patch.diff + demo.py> --props C01[,C02...] [--tier quick]

Steps (all in a scratch copy of /repo under /var/tmp, removed afterwards; /repo itself is never touched):
  1. demo.py on the clean copy must exit 0
  2. apply patch.diff; the pinned test-suite must still pass
  3. demo.py on the patched copy must exit non-zero
  4. run the given checks with VERIF_REPO=<patched copy> (evidence / replays go to the scratch dir) and report
Prints one JSON line with the verdicts (used to fill seeded/<id>/meta.json)."""
import argparse
import json
import os
import shutil
import subprocess
import sys
import tempfile
import time

VERIF = os.path.dirname(os.path.dirname(os.path.abspath(__file__)))


def copy_repo():
    d = tempfile.mkdtemp(prefix='pyplate-seed-', dir='/var/tmp')
    for item in ('pyplate', 'tests', 'pyproject.toml', 'README.md', 'docs'):
        src = os.path.join('/repo', item)
        if os.path.isdir(src):
            shutil.copytree(src, os.path.join(d, item), ignore=shutil.ignore_patterns('__pycache__', 'images', '*.png', '*.ipynb'))
        elif os.path.exists(src):
            shutil.copy(src, d)
    return d


def env_for(d):
    e = dict(os.environ, PYTHONPATH=d, PYPLATE_CONFIG=os.path.join(d, 'pyplate'), PYTHONDONTWRITEBYTECODE='1')
    e.pop('VERIF_PINNED', None)
    return e


def run_demo(d, demo):
    r = subprocess.run(['/venv/bin/python', demo], cwd=d, env=env_for(d), capture_output=True, text=True, timeout=600)
    return r.returncode, (r.stdout + r.stderr)[-400:]


def main():
    ap = argparse.ArgumentParser()
    ap.add_argument('dir')
    ap.add_argument('--props', required=True)
    ap.add_argument('--tier', default='quick')
    ap.add_argument('--seed', default='1')
    ap.add_argument('--worktree')
    a = ap.parse_args()
    sd = os.path.abspath(a.dir)
    patch, demo = os.path.join(sd, 'patch.diff'), os.path.join(sd, 'demo.py')
    out = {'dir': a.dir, 'props': a.props.split(','), 'tier': a.tier}
    # 1-3: confirm the author's claims in the scratch worktree the change was written in (its own checkout of
    # the repository; demos may assert that location)
    wt = a.worktree or os.path.dirname(sd)
    subprocess.run(['git', '-C', wt, 'checkout', '--', 'pyplate'], capture_output=True)
    rc, tail = run_demo(wt, demo)
    out['demo_clean_rc'] = rc
    if rc != 0:
        out['demo_clean_tail'] = tail
    r = subprocess.run(['git', '-C', wt, 'apply', patch], capture_output=True, text=True)
    out['patch_applies_in_worktree'] = r.returncode == 0
    if r.returncode == 0:
        t = subprocess.run(['/venv/bin/python', '-m', 'pytest', '-q', '-p', 'no:cacheprovider', '--timeout=900', 'tests'],
                           cwd=wt, env=env_for(wt), capture_output=True, text=True)
        out['suite'] = t.stdout.strip().splitlines()[-1] if t.stdout.strip() else t.stderr[-200:]
        out['suite_passes'] = t.returncode == 0
        rc, tail = run_demo(wt, demo)
        out['demo_patched_rc'] = rc
        out['demo_patched_tail'] = tail[-300:]
        subprocess.run(['git', '-C', wt, 'checkout', '--', 'pyplate'], capture_output=True)
    # 4: the checks run against a scratch copy of /repo's current tree with the patch applied
    d = copy_repo()
    try:
        r = subprocess.run(['patch', '-p1', '-s', '--no-backup-if-mismatch', '-d', d, '-i', patch], capture_output=True, text=True)
        out['patch_applies'] = r.returncode == 0
        if r.returncode != 0:
            out['patch_err'] = (r.stdout + r.stderr)[-300:]
            print(json.dumps(out))
            return 2
        t = subprocess.run(['/venv/bin/python', '-m', 'pytest', '-q', '-p', 'no:cacheprovider', '--timeout=900', 'tests'],
                           cwd=d, env=env_for(d), capture_output=True, text=True)
        out['suite_on_current_tree'] = t.stdout.strip().splitlines()[-1] if t.stdout.strip() else t.stderr[-200:]
        out['checks'] = {}
        for prop in out['props']:
            e = dict(os.environ, VERIF_REPO=d, VERIF_SEED=a.seed, VERIF_ROUNDS='1', VERIF_SHRINK_S='10', VERIF_REPLAY_DIR=os.path.join(d, '_replays'),
                     VERIF_EVIDENCE_DIR=os.path.join(d, '_evidence'))
            e.pop('VERIF_PINNED', None)
            t0 = time.time()
            c = subprocess.run(['/venv/bin/python', os.path.join(VERIF, 'run.py'), 'check', prop, '--tier', a.tier],
                               cwd=VERIF, env=e, capture_output=True, text=True)
            sigs = [ln.strip()[:200] for ln in c.stdout.splitlines() if ln.startswith('  sig=')]
            out['checks'][prop] = {'rc': c.returncode, 'wall_s': round(time.time() - t0, 1), 'signatures': sigs[:6]}
            if c.returncode == 2:
                out['checks'][prop]['harness_error'] = (c.stdout[-400:] + c.stderr[-800:])
        print(json.dumps(out))
        return 0
    finally:
        shutil.rmtree(d, ignore_errors=True)


if __name__ == '__main__':
    sys.exit(main())
