#!/venv/bin/python
"""Re-evaluates every kept seeded change (/verif/seeded/<id>/) against the checks as they are now and /repo as it is
now: the patch (or patch-ported-to-current-tree.diff where the original no longer applies) on a scratch copy of /repo
under /var/tmp (removed afterwards), the pinned suite there, the demonstration with and without the patch, then the
quick check of the seed's own property and of every property recorded as detecting it.  Updates meta.json
('recheck': ...) and prints one line per seed.   usage: tools/seed_recheck.py [id ...] [--jobs 2] [--seed 1]"""
import argparse
import json
import os
import shutil
import subprocess
import sys
import time
from concurrent.futures import ThreadPoolExecutor

VERIF = os.path.dirname(os.path.dirname(os.path.abspath(__file__)))
sys.path.insert(0, os.path.join(VERIF, 'tools'))
from seedcheck import copy_repo, env_for   # noqa


def demo(d, path):
    r = subprocess.run(['/venv/bin/python', path], cwd=d, env=env_for(d), capture_output=True, text=True, timeout=900)
    return r.returncode


def one(sid, seed):
    sd = os.path.join(VERIF, 'seeded', sid)
    mp = os.path.join(sd, 'meta.json')
    meta = json.load(open(mp))
    props = sorted({meta['property']} | set(meta.get('detected_by', [])))
    ported = os.path.join(sd, 'patch-ported-to-current-tree.diff')
    patch = ported if os.path.exists(ported) else os.path.join(sd, 'patch.diff')
    d = copy_repo()
    out = {'patch': os.path.basename(patch), 'seed': seed}
    try:
        # the demonstrations locate the repository as the parent of their own directory (they were written in
        # <worktree>/A or <worktree>/B): give them that layout inside the scratch copy
        shutil.copytree(sd, os.path.join(d, 'S'))
        dp = os.path.join(d, 'S', 'demo.py')
        # ... and some assert the path of the worktree they were written in (removed long ago): point that at the copy
        import re
        src = open(dp).read()
        open(dp, 'w').write(re.sub(r'/tmp/seed2?/C\d\d', d, src))
        out['demo_clean_exit'] = demo(d, dp)
        r = subprocess.run(['patch', '-p1', '-s', '--no-backup-if-mismatch', '-d', d, '-i', patch], capture_output=True, text=True)
        out['applies_to_current_tree'] = r.returncode == 0
        if r.returncode != 0:
            return sid, out
        t = subprocess.run(['/venv/bin/python', '-m', 'pytest', '-q', '-p', 'no:cacheprovider', '--timeout=900', 'tests'],
                           cwd=d, env=env_for(d), capture_output=True, text=True)
        out['suite'] = t.stdout.strip().splitlines()[-1] if t.stdout.strip() else 'error'
        out['demo_patched_exit'] = demo(d, dp)
        out['checks'] = {}
        for prop in props:
            e = dict(os.environ, VERIF_REPO=d, VERIF_SEED=str(seed), VERIF_ROUNDS='1', VERIF_SHRINK_S='10',
                     VERIF_REPLAY_DIR=os.path.join(d, '_replays'), VERIF_EVIDENCE_DIR=os.path.join(d, '_evidence'))
            t0 = time.time()
            c = subprocess.run(['/venv/bin/python', os.path.join(VERIF, 'run.py'), 'check', prop, '--tier', 'quick'],
                               cwd=VERIF, env=e, capture_output=True, text=True)
            sigs = [ln.strip()[4:160] for ln in c.stdout.splitlines() if ln.startswith('  sig=')]
            out['checks'][prop] = {'exit': c.returncode, 'wall_s': round(time.time() - t0, 1), 'signatures': sigs[:3]}
        return sid, out
    finally:
        shutil.rmtree(d, ignore_errors=True)
        meta['recheck'] = out
        if 'checks' in out:
            meta['detected_by'] = sorted(p for p, c in out['checks'].items() if c['exit'] == 1)
            meta['missed_by_quick_at_seed_1'] = sorted(p for p, c in out['checks'].items() if c['exit'] == 0)
            meta['checks_run'] = out['checks']
        json.dump(meta, open(mp, 'w'), indent=1)


def main():
    ap = argparse.ArgumentParser()
    ap.add_argument('ids', nargs='*')
    ap.add_argument('--jobs', type=int, default=2)
    ap.add_argument('--seed', type=int, default=1)
    a = ap.parse_args()
    ids = a.ids or sorted(os.listdir(os.path.join(VERIF, 'seeded')))
    bad = 0
    with ThreadPoolExecutor(a.jobs) as ex:
        for sid, out in ex.map(lambda s: one(s, a.seed), ids):
            own = sid.split('-')[0]
            res = {p: c['exit'] for p, c in out.get('checks', {}).items()}
            ok = out.get('applies_to_current_tree') and any(v == 1 for v in res.values())
            bad += not ok
            print(sid, 'applies' if out.get('applies_to_current_tree') else 'DOES-NOT-APPLY', out.get('suite'),
                  'demo', out.get('demo_clean_exit'), '->', out.get('demo_patched_exit'), res,
                  '' if res.get(own) == 1 else ('(own check misses)' if ok else 'MISSED'))
            sys.stdout.flush()
    return 1 if bad else 0


if __name__ == '__main__':
    sys.exit(main())
