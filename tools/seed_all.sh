#!/bin/bash
# evaluates every seeded change found under $SEED_ROOT (default /tmp/seed)/<ID>/{A,B} (or a given list) with its own property's check
# usage: tools/seed_all.sh [ID ...]      results -> <dir>/result.json
cd "$(dirname "$0")/.."
ROOT=${SEED_ROOT:-/tmp/seed}
ids=${@:-$(ls -d $ROOT/C?? | xargs -n1 basename)}
for id in $ids; do for x in A B; do
  d=$ROOT/$id/$x
  [ -f $d/patch.diff ] || continue
  [ -s $d/result.json ] && continue
  /venv/bin/python tools/seedcheck.py $d --props $id > $d/result.json 2> $d/err.txt
  /venv/bin/python - "$d" <<'PY'
import json,sys
d=sys.argv[1]
try:
    r=json.load(open(d+'/result.json'))
    print(d, 'clean_rc',r.get('demo_clean_rc'),'suite',r.get('suite_passes'),'patched_rc',r.get('demo_patched_rc'), {p:(c['rc'],c['wall_s']) for p,c in r.get('checks',{}).items()})
except Exception as e: print(d,'ERR',e)
PY
done; done
