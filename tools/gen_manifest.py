#!/venv/bin/python
"""Regenerates MANIFEST.json from the table below (kept in code so the manifest is always schema-valid)."""
import json, os
HERE = os.path.dirname(os.path.dirname(os.path.abspath(__file__)))
PY = '/venv/bin/python'
SETUP = ("(/venv/bin/python -c 'import hypothesis' 2>/dev/null || "
         "/venv/bin/pip install --no-index --find-links /opt/veriftools/wheels hypothesis) && "
         "(/venv/bin/pip install -q --no-index --find-links /opt/veriftools/wheels --target .deps atheris "
         "|| echo 'atheris not installable: C14 byte-fuzz tier will be skipped')")

CHECKS = {}   # id -> dict(engine, technique, text, note, design_ref)
PENDING = {}  # id -> reason (not yet claimed)


def load():
    import importlib.util
    spec = importlib.util.spec_from_file_location('manifest_table', os.path.join(HERE, 'tools', 'manifest_table.py'))
    m = importlib.util.module_from_spec(spec)
    spec.loader.exec_module(m)
    return m


def main():
    t = load()
    checks = []
    for pid in sorted(t.CHECKS):
        c = t.CHECKS[pid]
        checks.append({
            'property_id': pid,
            'quick_cmd': f"{PY} run.py check {pid} --tier quick",
            'thorough_cmd': f"{PY} run.py check {pid} --tier thorough",
            'evidence_file': f"evidence/{pid}.json",
            'replay_cmd_template': f"{PY} run.py replay {{path}}",
            'engine': c['engine'],
            'level_claimed': {'category': 'exploration', 'text': c['text'], 'design_ref': c['design_ref']},
            'level_note': c['note'],
            'technique': c['technique'],
        })
    man = {
        'version': 1,
        'setup_cmd': SETUP,
        'hooks': {'guard': 'PYPLATE_VERIF', 'enable': 'no hooks are needed: every observation point is public API state; '
                  'checks import /repo working tree directly (VERIF_REPO overrides the location)',
                  'baseline_off_cmd': 'cd /repo && /venv/bin/python -m pytest -ra -q -p no:cacheprovider --timeout=900 '
                                      '--continue-on-collection-errors',
                  'source_commits': [], 'add_only': True},
        'engines': t.ENGINES,
        'checks': checks,
        'notes': t.NOTES,
        'not_applicable': [{'property_id': k, 'reason': v} for k, v in sorted(t.PENDING.items())],
    }
    with open(os.path.join(HERE, 'MANIFEST.json'), 'w') as f:
        json.dump(man, f, indent=1)
        f.write('\n')
    import jsonschema
    jsonschema.validate(man, json.load(open('/root/.vp/MANIFEST.schema.json')))
    print('MANIFEST.json written and valid:', len(checks), 'checks,', len(t.PENDING), 'pending')


if __name__ == '__main__':
    main()
