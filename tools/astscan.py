#!/venv/bin/python
"""Self-check of the harness: no `col.report` (or a helper that reports) may sit inside a try block that catches
Exception, because the Violation it raises would be swallowed and the check would stay green."""
import ast, sys, glob
REPORTERS={'report','amount_check','compare_array','transfer_text','only_solvent_changed','untouched','judge_history','judge_program','check_valid','check_invalid','check_quantity','check_concentration','check_malformed','check_family','check_api','check_cell','check_substance','run_case','run_sequence','check_program','concentration','observe','dilute','fill','recipe_variant','classify','invariant'}
for f in sorted(glob.glob('/verif/checks/*.py')+glob.glob('/verif/engines/*.py')):
    tree=ast.parse(open(f).read())
    for node in ast.walk(tree):
        if isinstance(node, ast.Try):
            catches=any(h.type is None or (isinstance(h.type,ast.Name) and h.type.id in('Exception','BaseException')) for h in node.handlers)
            reraises=any(isinstance(h.type,ast.Attribute) and h.type.attr=='Violation' or (isinstance(h.type,ast.Name) and h.type.id=='Violation') for h in node.handlers)
            if not catches or reraises: continue
            for sub in node.body:
                for c in ast.walk(sub):
                    if isinstance(c, ast.Call):
                        name = c.func.attr if isinstance(c.func, ast.Attribute) else c.func.id if isinstance(c.func, ast.Name) else ''
                        if name in REPORTERS and not (name in ('dilute','fill','concentration','observe') and isinstance(c.func, ast.Attribute) and not (isinstance(c.func.value, ast.Name) and c.func.value.id=='self')):
                            print(f"{f}:{node.lineno}: try-body calls {name} at line {c.lineno}")
