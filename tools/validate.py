#!/opt/veriftools/pyvenv/bin/python
"""Validate MANIFEST.json and every evidence file against the schemas (run with python3-vt: needs jsonschema)."""
import json, glob, os, sys
import jsonschema
HERE = os.path.dirname(os.path.dirname(os.path.abspath(__file__)))
ok = True
man = json.load(open(os.path.join(HERE, 'MANIFEST.json')))
jsonschema.validate(man, json.load(open('/root/.vp/MANIFEST.schema.json')))
es = json.load(open('/root/.vp/EVIDENCE.schema.json'))
for c in man['checks']:
    p = os.path.join(HERE, c['evidence_file'])
    if not os.path.exists(p):
        print('MISSING', p); ok = False; continue
    try:
        jsonschema.validate(json.load(open(p)), es)
        e = json.load(open(p))
        print('ok', c['property_id'], e['tier'], 'eval', e['coverage']['evaluations'], 'nontriv', e['coverage']['distinct_nontrivial'], 'viol', e.get('violations'), 'wall', e['wall_s'])
    except Exception as ex:
        print('INVALID', p, str(ex)[:300]); ok = False
props = [json.loads(l)['id'] for l in open(os.path.join(HERE, 'properties.jsonl'))]
claimed = {c['property_id'] for c in man['checks']}
na = {n['property_id'] for n in man.get('not_applicable', [])}
for p in props:
    if (p in claimed) == (p in na):
        print('property', p, 'must be either claimed or not_applicable'); ok = False
sys.exit(0 if ok else 1)
