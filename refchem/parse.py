"""Reference reader of the documented quantity / concentration grammar (docs: units_and_concentrations.rst and
the docstrings of Unit.parse_quantity / parse_concentration).  Exact Fraction arithmetic, own prefix table.

  quantity       := NUMBER ' ' PREFIX? BASE            BASE in {g, L, mol} ; 'U' carries no prefix
  concentration  := NUMBER ' ' PREFIX? ('M' | 'm')                         molar (mol/L) / molal (mol/kg)
                  | NUMBER ' ' UNIT '/' UNIT                               e.g. '0.1 g/mL'
                  | NUMBER ' ' UNIT '/' NUMBER ' ' UNIT                    e.g. '0.01 umol/10 uL'
                  | NUMBER ' ' ('%w/w' | '%v/v' | '%w/v')                  parts per hundred
"""
import re
from fractions import Fraction

from .model import PREFIXES

NUMBER = r'[+-]?(?:\d+\.?\d*|\.\d+)(?:[eE][+-]?\d+)?'
_Q = re.compile(rf'^({NUMBER}) (\S+)\Z')


class Unreadable(ValueError):
    pass


def unit_ref(u, allow=('g', 'L', 'mol', 'U'), prefixed_U=False):
    """'mL' -> (Fraction(1,1000), 'L');  prefixed_U: read 'mU' as 1e-3 U (the lenient reading; the documented forms
    give activity units no prefix, and parse_quantity refuses one)"""
    for fam in ('mol', 'L', 'g', 'U'):
        if fam in allow and u.endswith(fam):
            p = u[:-len(fam)]
            if fam == 'U' and p != '' and not prefixed_U:
                raise Unreadable(f"activity units take no prefix: {u}")
            if p in PREFIXES:
                return PREFIXES[p], fam
            raise Unreadable(f"unknown prefix in {u}")
    raise Unreadable(f"unknown unit {u}")


def quantity(text):
    m = _Q.match(text)
    if not m:
        raise Unreadable(text)
    mult, fam = unit_ref(m.group(2))
    return Fraction(m.group(1)) * mult, fam


_C_PLAIN = re.compile(rf'^({NUMBER}) ([^\s/]+)/([^\s/]+)\Z')
_C_W = re.compile(rf'^({NUMBER}) ([^\s/]+)/({NUMBER}) ([^\s/]+)\Z')
_C_M = re.compile(rf'^({NUMBER}) (\S*)([Mm])\Z')
_C_PCT = re.compile(rf'^({NUMBER}) (%w/w|%v/v|%w/v)\Z')


def concentration(text, wv='g/mL'):
    """-> (Fraction ratio in base units num/den, num family, den family)"""
    m = _C_PCT.match(text)
    if m:
        v = Fraction(m.group(1)) / 100
        form = m.group(2)
        if form == '%w/w':
            return v, 'g', 'g'
        if form == '%v/v':
            return v, 'L', 'L'
        a, b = wv.split('/')
        (ma, fa), (mb, fb) = unit_ref(a), unit_ref(b)
        return v * ma / mb, fa, fb
    m = _C_W.match(text)
    if m:
        (mn, fn), (md, fd) = unit_ref(m.group(2)), unit_ref(m.group(4))
        w = Fraction(m.group(3))
        if w == 0:
            raise Unreadable("zero denominator")
        return Fraction(m.group(1)) * mn / (w * md), fn, fd
    m = _C_PLAIN.match(text)
    if m:
        (mn, fn), (md, fd) = unit_ref(m.group(2)), unit_ref(m.group(3))
        return Fraction(m.group(1)) * mn / md, fn, fd
    m = _C_M.match(text)
    if m and '/' not in text:
        p = m.group(2)
        if p not in PREFIXES:
            raise Unreadable(f"unknown prefix {p}")
        v = Fraction(m.group(1)) * PREFIXES[p]
        if m.group(3) == 'M':
            return v, 'mol', 'L'
        return v / 1000, 'mol', 'g'
    raise Unreadable(text)
