"""Reference resolver for the documented well-addressing grammar (docs/source/users_guide/locations.rst and the
Slicer docstring).  Selectors are tagged JSON so that they serialise into replay files.

  {"t":"wstr","r":<label>,"c":<label>}           'A:1'
  {"t":"wtup","r":<int|label>,"c":<int|label>}   ('A', 1) / (1, 1)
  {"t":"row","r":<int|label>}                    plate[2] / plate['B']
  {"t":"rows","s":<slice>}                       plate[a:b:k]
  {"t":"rc","r":<axis>,"c":<axis>}               plate[rowspec, colspec], axis = int | label | slice; at least one slice
  {"t":"list","items":[wstr|wtup, ...]}          plate[[...]]
  {"t":"all"}                                    plate[:]
  {"t":"plate"}                                  the Plate object itself (where the API takes a Plate)
<slice> = {"a":<None|int|label>,"b":<None|int|label>,"k":<None|int>}
An int is given as a JSON number, a label as a JSON string.
"""


class Invalid(Exception):
    pass


def _idx(x, labels):
    """1-based integer index or label -> 0-based position; raises Invalid when outside the plate."""
    if isinstance(x, bool):
        raise Invalid("bool")
    if isinstance(x, int):
        if not 1 <= x <= len(labels):
            raise Invalid(f"index {x} outside 1..{len(labels)}")
        return x - 1
    if isinstance(x, str):
        if x not in labels:
            raise Invalid(f"unknown label {x!r}")
        return labels.index(x)
    raise Invalid(f"bad index type {type(x).__name__}")


def _axis(spec, labels):
    """axis spec -> list of 0-based positions (inclusive slice semantics)."""
    if isinstance(spec, dict):
        a, b, k = spec.get('a'), spec.get('b'), spec.get('k')
        lo = 0 if a is None else _idx(a, labels)
        hi = len(labels) - 1 if b is None else _idx(b, labels)
        if k is None:
            k = 1
        if not isinstance(k, int) or isinstance(k, bool) or k < 1:
            raise Invalid("step")
        return list(range(lo, hi + 1, k))
    return [_idx(spec, labels)]


def resolve(sel, row_labels, col_labels):
    """-> (list of (r, c) zero-based in selection order, shape tuple)."""
    t = sel['t']
    nr, nc = len(row_labels), len(col_labels)
    if t in ('wstr', 'wtup'):
        return [(_idx(sel['r'], row_labels), _idx(sel['c'], col_labels))], (1, 1)
    if t == 'row':
        r = _idx(sel['r'], row_labels)
        return [(r, c) for c in range(nc)], (1, nc)
    if t == 'rows':
        rs = _axis(sel['s'], row_labels)
        return [(r, c) for r in rs for c in range(nc)], (len(rs), nc)
    if t == 'rc':
        rs = _axis(sel['r'], row_labels)
        cs = _axis(sel['c'], col_labels)
        return [(r, c) for r in rs for c in cs], (len(rs), len(cs))
    if t == 'list':
        out = []
        for it in sel['items']:
            if it['t'] not in ('wstr', 'wtup'):
                raise Invalid("list item")
            out.append((_idx(it['r'], row_labels), _idx(it['c'], col_labels)))
        return out, (len(out),)
    if t in ('all', 'plate'):
        return [(r, c) for r in range(nr) for c in range(nc)], (nr, nc)
    if t == 'sub':
        # a slice of a slice (Slicer.__getitem__): Python/numpy semantics, 0-based and end-exclusive, relative to the
        # rows and columns selected by the base slice.  Not part of the documented grammar (C13 does not use it);
        # used as an operand form in the differential checks, where only consistency between two paths is judged.
        coords, shape = resolve(sel['base'], row_labels, col_labels)
        if len(shape) != 2:
            raise Invalid("sub-slice of a list")
        rows = sorted({r for r, _ in coords})
        cols = sorted({c for _, c in coords})

        def cut(seq, spec):
            if isinstance(spec, int):
                if not 0 <= spec < len(seq):
                    raise Invalid("sub index")
                return seq[spec:spec + 1]
            a, b = spec.get('a'), spec.get('b')
            if (a is not None and a < 0) or (b is not None and b < 0):
                raise Invalid("negative sub index")
            return seq[slice(a, b)]
        rs, cs = cut(rows, sel['r']), cut(cols, sel['c'])
        if not rs or not cs:
            raise Invalid("empty sub-slice")
        return [(r, c) for r in rs for c in cs], (len(rs), len(cs))
    raise Invalid(t)


def _py_slice(s):
    return slice(s.get('a'), s.get('b'), s.get('k'))


def _py_axis(spec):
    return _py_slice(spec) if isinstance(spec, dict) else spec


def to_py(sel):
    """Tagged selector -> the Python object a user would put between the brackets."""
    t = sel['t']
    if t == 'wstr':
        return f"{sel['r']}:{sel['c']}"
    if t == 'wtup':
        return (sel['r'], sel['c'])
    if t == 'row':
        return sel['r']
    if t == 'rows':
        return _py_slice(sel['s'])
    if t == 'rc':
        return (_py_axis(sel['r']), _py_axis(sel['c']))
    if t == 'list':
        return [to_py(i) for i in sel['items']]
    if t == 'all':
        return slice(None)
    raise ValueError(t)


def select(plate, sel):
    """plate[...] for a tagged selector (two-stage for a slice of a slice)"""
    if sel['t'] == 'sub':
        def part(spec):
            return spec if isinstance(spec, int) else slice(spec.get('a'), spec.get('b'))
        return plate[to_py(sel['base'])][part(sel['r']), part(sel['c'])]
    return plate[to_py(sel)]


def show(sel):
    t = sel['t']
    if t == 'plate':
        return '<Plate>'
    if t == 'sub':
        return f"{show(sel['base'])}[{sel['r']}, {sel['c']}]"
    return repr(to_py(sel))
