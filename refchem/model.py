"""Independent reference chemistry model. Never calls pyplate.Unit; first principles only.

Base amounts: non-enzymes in mol, enzymes in U.  Families: 'L', 'g', 'mol', 'U'.
"""
from fractions import Fraction
import math

PREFIXES = {'n': Fraction(1, 10 ** 9), 'u': Fraction(1, 10 ** 6), 'µ': Fraction(1, 10 ** 6),
            'm': Fraction(1, 1000), 'c': Fraction(1, 100), 'd': Fraction(1, 10), '': Fraction(1),
            'da': Fraction(10), 'k': Fraction(1000), 'M': Fraction(10 ** 6)}
PREFIX_LIST = ['n', 'u', 'µ', 'm', 'c', 'd', '', 'da', 'k', 'M']
FAMILIES = ('L', 'g', 'mol', 'U')
KINDS = ('solid', 'liquid', 'enzyme')


def prefix_f(p):
    return float(PREFIXES[p])


def split_unit(unit):
    """'mL' -> ('m', 'L'); 'damol' -> ('da','mol'); 'U' -> ('', 'U').  Own reading of SI unit spelling."""
    for fam in ('mol', 'L', 'g', 'U'):
        if unit.endswith(fam):
            p = unit[:-len(fam)]
            if p in PREFIXES:
                return p, fam
    raise ValueError(f"not a unit: {unit}")


class Sub:
    """Substance spec. density: g/mL (U/mL for enzymes); sa: U/g (enzymes)."""
    __slots__ = ('kind', 'name', 'mw', 'density', 'sa', 'sa_text')

    def __init__(self, kind, name, mw=None, density=None, sa=None, sa_text=None):
        self.kind, self.name, self.mw, self.density, self.sa, self.sa_text = kind, name, mw, density, sa, sa_text

    @property
    def enzyme(self):
        return self.kind == 'enzyme'

    def to_json(self):
        return {'kind': self.kind, 'name': self.name, 'mw': self.mw, 'density': self.density,
                'sa': self.sa, 'sa_text': self.sa_text}

    @staticmethod
    def from_json(d, cfg=None):
        s = Sub(d['kind'], d['name'], d.get('mw'), d.get('density'), d.get('sa'), d.get('sa_text'))
        return s

    def base_unit(self):
        return 'U' if self.enzyme else 'mol'

    def factor(self, fam):
        """Multiply a base amount (mol, or U for enzymes) by this to get the amount in family base unit."""
        if self.enzyme:
            if fam == 'U':
                return 1.0
            if fam == 'mol':
                return 0.0
            if fam == 'g':
                return 1.0 / self.sa
            if fam == 'L':
                return 0.0 if math.isinf(self.density) else 1.0 / (self.density * 1000.0)
        else:
            if fam == 'U':
                return 0.0
            if fam == 'mol':
                return 1.0
            if fam == 'g':
                return float(self.mw)
            if fam == 'L':
                return 0.0 if math.isinf(self.density) else self.mw / self.density / 1000.0
        raise ValueError(fam)


def fill_defaults(sub, cfg):
    """Solids/enzymes take their density from configuration (input, not code under test)."""
    if sub.kind == 'solid':
        sub.density = float(cfg['default_solid_density'])
    elif sub.kind == 'enzyme':
        sub.density = float(cfg['default_enzyme_density'])
    return sub


class RefCfg:
    """What the reference needs from configuration, read from the yaml file itself."""

    def __init__(self, path=None):
        import os
        import yaml
        if path is None:
            path = os.path.join(os.environ['PYPLATE_CONFIG'], 'pyplate.yaml')
        with open(path) as f:
            self.raw = yaml.safe_load(f)
        self.P = int(self.raw['internal_precision'])
        self.grain = 10.0 ** (-self.P)
        self.mol_prefix = self.raw['moles_storage_unit'][:-3]
        self.vol_prefix = self.raw['volume_storage_unit'][:-1]
        self.mol_mult = prefix_f(self.mol_prefix)      # mol per storage unit
        self.vol_mult = prefix_f(self.vol_prefix)      # L per storage unit
        self.precisions = dict(self.raw['precisions'])
        self.wv = self.raw['default_weight_volume_units']

    def precision(self, unit):
        return self.precisions.get(unit, self.precisions['default'])

    def __getitem__(self, k):
        return self.raw[k]


class Ref:
    """Reference calculations over pyplate containers, given the substance specs by name."""

    def __init__(self, cfg, subs):
        self.cfg = cfg
        self.subs = {s.name: s for s in subs}

    def spec(self, substance):
        return self.subs[substance.name if not isinstance(substance, str) else substance]

    # --- reading real containers ---------------------------------------------------------------------------
    def base_contents(self, container):
        """{name: amount in mol (U for enzymes)} from a pyplate Container's stored contents."""
        out = {}
        for s, a in container.contents.items():
            sp = self.subs[s.name]
            out[s.name] = out.get(s.name, 0.0) + (a if sp.enzyme else a * self.cfg.mol_mult)
        return out

    def size(self, base, fam, only=None):
        tot = 0.0
        for n, a in base.items():
            if only is not None and n not in only:
                continue
            tot += a * self.subs[n].factor(fam)
        return tot

    def volume_storage(self, base):
        return self.size(base, 'L') / self.cfg.vol_mult

    def amount_in(self, name, amount_base, unit):
        p, fam = split_unit(unit)
        return amount_base * self.subs[name].factor(fam) / prefix_f(p)

    def conc(self, base, solute_name, num_unit, den_unit):
        """amount of solute in num_unit / size of the whole mixture in den_unit."""
        pn, fn = split_unit(num_unit)
        pd, fd = split_unit(den_unit)
        num = base.get(solute_name, 0.0) * self.subs[solute_name].factor(fn) / prefix_f(pn)
        den = self.size(base, fd) / prefix_f(pd)
        if num == 0:
            return 0.0
        if den == 0:
            return math.inf          # e.g. per litre of a mixture without volume
        return num / den

    # --- tolerance calculus -----------------------------------------------------------------------------
    def grain_in(self, names, fam):
        """One storage grain of the given substances expressed in family base units (max over substances)."""
        g = 0.0
        for n in names:
            sp = self.subs[n]
            per = self.cfg.grain * (1.0 if sp.enzyme else self.cfg.mol_mult)
            g = max(g, per * abs(sp.factor(fam)))
        return g

    def grain_base(self, name):
        sp = self.subs[name]
        return self.cfg.grain * (1.0 if sp.enzyme else self.cfg.mol_mult)


def close(x, y, abs_tol=0.0, rel_tol=1e-9):
    if x == y:
        return True
    if x != x or y != y:
        return False
    return abs(x - y) <= abs_tol + rel_tol * max(abs(x), abs(y))
