"""C01 Transfers conserve every substance.  Engine E1 (Bench histories), monitor `conserve`."""
from harness import core
from harness.core import budget
from engines import bench, benchmachine
from engines.benchmachine import Monitor
from refchem import selectors as rsel

ID = 'C01'
SHARDS = {'quick': 8, 'thorough': 16}
RULE = ("stateful Hypothesis histories over the direct API (construct, transfer in every pairing form, remove, "
        "fill_to, pooled slices); every returned transfer is checked: per substance, sum over the distinct "
        "physical vessels (source and destination; one plate on both sides counts once) is unchanged within "
        "(2*pairs+2) storage grains, wells that are neither source nor destination are identical, and the two "
        "results describe one state when both sides are one plate. evaluations = transfers executed; "
        "non-trivial = returned, q>0, and (>=2 substances in a source well or a plate involved); distinct by "
        "(pairing form, unit family, same-plate class, substance kinds present, wells bucket)")
ASSUMPTIONS = ["physical-vessel identity = pool object identity (a plate passed on both sides is one vessel)",
               "a container transferred into itself is not generated (no physical reading; counted as excluded)",
               "amounts <= 1e8 storage units, plates <= 4x4 (quick) / 8x12 (thorough)"]
REQUIRED_CLASSES = {'quick': ['form:c2c', 'form:1toN', 'form:Nto1', 'form:NtoN', 'same:disjoint'],
                    'thorough': ['form:c2c', 'form:1toN', 'form:Nto1', 'form:NtoN', 'same:disjoint', 'same:overlap']}


def totals(world, views):
    """per-substance base totals over a list of container/plate views"""
    tot = {}
    for v in views:
        wells = [v] if v['k'] == 'c' else [w for row in v['wells'] for w in row]
        for w in wells:
            for n, a in world.base(w).items():
                tot[n] = tot.get(n, 0.0) + a
    return tot


def strip(v):
    """view without instruction text (conservation is about contents; C04/C19 own the text)"""
    return {k: x for k, x in v.items() if k != 'instr'}


class Conserve(Monitor):
    def __init__(self, col):
        self.col = col

    def before(self, world, op):
        if op['op'] != 'transfer':
            return None
        try:
            return bench.RefTransfer(world, op)
        except rsel.Invalid:
            return None

    def after(self, world, op, rt, out):
        col = self.col
        if op['op'] != 'transfer' or rt is None:
            return
        col.case()
        same = 'no'
        if rt.same_plate:
            same = 'overlap' if rt.overlap else 'disjoint'
        if rt.self_transfer:
            same = 'self'
        col.label(f"form:{rt.form}")
        col.label(f"same:{same}")
        col.label(f"fam:{rt.fam}")
        if any(len({c for c, _ in ws}) < len(ws) for ws in (rt.src, rt.dst)):
            col.label('list-names-a-well-twice')
        if not out.ok:
            col.label('refused')
            return
        col.label('returned')
        se, de = world.pool[op['src']['i']], world.pool[op['dst']['i']]
        si = bench.plate_index_of(world, op['src'])
        di = bench.plate_index_of(world, op['dst'])
        sv = world.pool[si].view if si is not None else se.view
        dv = world.pool[di].view if di is not None else de.view
        rs, rd = out.new_entries[0].view, out.new_entries[1].view
        case = world.case
        base_sig = f"transfer/{rt.form}/same={same}"
        same_vessel = (si is not None and si == di) or rt.self_transfer
        if same_vessel:
            before = [sv]
            if rt.self_transfer:
                # each returned copy must be the unchanged vessel
                for tag, r in (('src', rs), ('dst', rd)):
                    if strip(r)['contents'] != strip(sv)['contents']:
                        col.report(base_sig + '/self-transfer-changes-contents', {'which': tag}, case)
                return
            if strip_instr_plate(rs) != strip_instr_plate(rd):
                col.report(base_sig + '/two-results-disagree', {}, case)
            after = [rs]
        else:
            before = [sv, dv]
            after = [rs, rd]
        tb, ta = totals(world, before), totals(world, after)
        npairs = max(1, len(rt._pairs())) if rt.form != 'invalid' else 1
        for n in sorted(set(tb) | set(ta)):
            b, a = tb.get(n, 0.0), ta.get(n, 0.0)
            tol = (2 * npairs + 2) * world.ref.grain_base(n) + 1e-12 * max(abs(a), abs(b))
            if abs(a - b) > tol:
                kind = world.ref.subs[n].kind
                col.report(base_sig + (f"/total-changed/{rt.fam}/{kind}" if same != 'overlap' else '/total-changed'),
                           {'substance': n, 'kind': kind, 'before': b, 'after': a, 'tol': tol, 'q': op['q']}, case)
        # untouched wells
        for tag, bv, av, wells in (('src', sv, rs, rt.src), ('dst', dv, rd, rt.dst)):
            if bv['k'] != 'p':
                continue
            touched = {c for c, _ in wells}
            if same_vessel:
                touched = {c for c, _ in rt.src} | {c for c, _ in rt.dst}
            for r, row in enumerate(bv['wells']):
                for c, w in enumerate(row):
                    if (r, c) in touched:
                        continue
                    if av['wells'][r][c] != w:
                        col.report(base_sig + f"/untouched-well-changed/{tag}", {'well': [r, c]}, case)
        # classification
        q_pos = rt.q > 0
        multi = any(len([1 for _, a in v['contents'] if a > 0]) >= 2 for _, v in rt.src)
        if q_pos and (multi or si is not None or di is not None):
            kinds = ''.join(sorted({world.ref.subs[n].kind[0] for _, v in rt.src for n, a in v['contents'] if a > 0}))
            nb = min(3, (len(rt.src) * len(rt.dst)).bit_length())
            col.nontrivial_key(f"{rt.form}|{rt.fam}|{same}|{kinds}|{nb}")
            col.sample(lambda: {'op': op, 'history_len': len(world.history),
                                'src_before': [v['contents'] for _, v in rt.src][:3]})


def strip_instr_plate(v):
    if v['k'] == 'c':
        return strip(v)
    out = dict(v)
    out['wells'] = [[strip(w) for w in row] for row in v['wells']]
    return out


def shard_config(shard, tier):
    """three of eight shards run under other documented settings: solids / enzymes without volume (density inf), other
    default densities, storage units whose prefixes differ"""
    return {5: {'default_solid_density': float('inf'), 'default_enzyme_density': float('inf')},
            6: {'default_solid_density': 2.5, 'default_enzyme_density': 0.4, 'moles_storage_unit': 'nmol'},
            7: {'default_solid_density': float('inf'), 'volume_storage_unit': 'mL'}}.get(shard % 8)


PROFILE = {'weights': {'transfer': 6, 'container': 2, 'plate': 1, 'remove': 1, 'fill_to': 1, 'slice': 1},
           'q_modes': ['frac'] * 8 + ['whole', 'over', 'zero'], 'self_transfer': False, 'initial_slices': 1,
           # lists may name a well twice: whatever that means well by well, nothing may be created or lost
           'dup_wells': True}


def twins_case(col, pp, case):
    """Two different substances that share a name (an anhydrous salt and its hydrate, two grades of a solvent): the
    library tells them apart by molar mass / density, so each is conserved on its own.  First principles: the stored
    amounts of each (name, molar mass, density), summed over all vessels, before and after."""
    core.env.clear_caches()
    col.case()
    col.label('twins')
    mk = (lambda mw, d: pp.Substance.liquid('X', mw, d)) if case['kind'] == 'liquid' else (lambda mw, d: pp.Substance.solid('X', mw))
    s1, s2 = mk(case['mw1'], case['d1']), mk(case['mw2'], case['d2'])
    other = pp.Substance.liquid('water', 18.0153, 1.0)
    a = pp.Container('a', initial_contents=[(s1, case['q1']), (other, '1 mL')])
    b = pp.Container('b', initial_contents=[(s2, case['q2'])])
    plate = pp.Plate('p', '50 mL', rows=1, columns=2)

    def totals(objs):
        t = {}
        for o in objs:
            for c in ([o] if isinstance(o, pp.Container) else list(o.wells.flatten())):
                for sub, amt in c.contents.items():
                    k = (sub.name, sub.mol_weight, sub.density)
                    t[k] = t.get(k, 0.0) + amt
        return t
    try:
        if case['form'] == 'c2c':
            before = totals([a, b])
            after = totals(pp.Container.transfer(a, b, case['q']))
        else:
            # b's substance goes into the wells first, then a is dispensed on top of it
            b2, plate2 = pp.Plate.transfer(b, plate, case['qb'])
            before = totals([a, plate2])
            after = totals(pp.Plate.transfer(a, plate2, case['q']))
    except ValueError:
        col.label('twins:refused')
        return
    for k in set(before) | set(after):
        x, y = before.get(k, 0.0), after.get(k, 0.0)
        if abs(x - y) > 1e-9 + 1e-12 * abs(x):
            col.report(f"same-named-substances/not-conserved/{case['form']}/{case['kind']}",
                       {'substance': list(k), 'before': x, 'after': y}, dict(case, twins=True))
            return
    col.nontrivial_key(f"twins|{case['form']}|{case['kind']}|{case['q'].split()[1]}")


def run(col):
    pp = core.env.bootstrap()
    if col.shard % 4 == 0:
        from hypothesis import given, strategies as st

        def t_twins():
            @given(st.sampled_from(['liquid', 'solid']), st.sampled_from(['c2c', 'c2p']), st.integers(20, 400), st.integers(20, 400),
                   st.integers(5, 30), st.integers(5, 30), st.integers(1, 9), st.sampled_from(['mL', 'g', 'mmol', 'uL', 'mg']))
            def test(kind, form, mw1, mw2, d1, d2, tenth, unit):
                if mw1 == mw2:
                    mw2 += 1
                size = {'mL': 1.0, 'g': 1.0, 'mmol': 5.0, 'uL': 1000.0, 'mg': 1000.0}[unit]
                twins_case(col, pp, {'kind': kind, 'form': form, 'mw1': float(mw1), 'mw2': float(mw2), 'd1': d1 / 10, 'd2': d2 / 10,
                                     'q1': '2 g', 'q2': '1 g', 'qb': '0.25 g', 'q': f"{round(size * tenth / 10, 4)} {unit}"})
            return test
        core.run_property(col, t_twins, budget(15, 150, col.tier), tag='twins')
    prof = dict(PROFILE)
    prof['max_dim'] = 4 if col.tier == 'quick' else (4 if col.shard % 4 else 8)
    mon = Conserve(col)
    core.run_property(col, lambda: benchmachine.make_machine(col, pp, prof, mon),
                      budget(40, 600, col.tier), tag='bench', stateful_step_count=25 if col.tier == 'quick' else 40)
    # transfers carried out as recipe steps (bake re-binds slices to the current plates): totals over all declared
    # objects are conserved and wells no step addresses keep their contents
    from engines import programs
    programs.run_c01(col, pp)


def replay(col, case):
    pp = core.env.bootstrap()
    if case.get('program'):
        from engines import programs
        return programs.replay_c01(col, pp, case)
    if case.get('twins'):
        return twins_case(col, pp, case)
    benchmachine.replay_history(col, pp, case, Conserve(col))
