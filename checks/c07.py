"""C07 Plate operations act well-by-well on exactly the addressed wells.  Engine E1, monitor `local`:
differential of every plate / slice operation against the same operation on free-standing containers, plus the
one-step recipe variant of each operation."""
import copy

from harness import core
from harness.core import budget
from engines import bench, benchmachine
from engines.benchmachine import Monitor
from refchem import selectors as rsel

ID = 'C07'
SHARDS = {'quick': 8, 'thorough': 16}
RULE = ("stateful histories producing plates with non-uniform wells; every operation that involves a plate or slice "
        "(transfer into / out of / between plates, remove, fill_to; selectors: wells, rows, columns, rectangles, "
        "stepped slices, lists, whole plate as Plate or plate[:]) is compared with the same Container operation "
        "applied to deep copies of the addressed wells in row-major (list: given) order, threading the single "
        "source/destination through: addressed wells equal (2 grains), all other wells identical, accept/refuse "
        "agrees with the stand-alone operations; legal pairings (1->N, N->1, equal shapes) must not be rejected for "
        "their shape and every other shape combination must raise; the same operation as a one-step recipe must "
        "give the same plate. non-trivial = proper sub-slice of a plate whose wells are not all equal; distinct by "
        "(op, selector form, pairing, unit family, direct/recipe)")
ASSUMPTIONS = ["oracle = the library's own Container operations (differential at another granularity)",
               "overlapping same-plate regions have no well-by-well reading: excluded here, C01 owns them",
               "instruction text of wells is not compared here (C19)"]
def shard_config(shard, tier):
    """two of eight shards run with solids (and enzymes) that take no volume (documented setting inf): wells can then
    hold material at zero volume"""
    return {5: {'default_solid_density': float('inf'), 'default_enzyme_density': float('inf')},
            2: {'default_solid_density': float('inf')}}.get(shard % 8)


REQUIRED_CLASSES = {'quick': ['kind:transfer', 'kind:remove', 'kind:fill_to', 'form:1toN', 'form:Nto1', 'recipe'],
                    'thorough': ['kind:transfer', 'kind:remove', 'kind:fill_to', 'form:1toN', 'form:Nto1',
                                 'form:NtoN', 'form:invalid', 'recipe']}


def same_container(world, a_view, b_view):
    """views equal up to two storage grains in amounts/volume; name and capacity exactly"""
    if a_view['name'] != b_view['name'] or a_view['cap'] != b_view['cap']:
        return False
    g = 2 * world.cfg.grain
    ca, cb = bench.contents_of(a_view), bench.contents_of(b_view)
    ref = world.ref
    # two grains of each substance, expressed as volume, plus two grains of the cached volume itself
    gv = sum(2 * ref.grain_base(n) * abs(ref.subs[n].factor('L')) for n in set(ca) | set(cb)) / world.cfg.vol_mult + g
    if abs(a_view['vol'] - b_view['vol']) > gv + 1e-12 * abs(a_view['vol']):
        return False
    for n in set(ca) | set(cb):
        x, y = ca.get(n, 0.0), cb.get(n, 0.0)
        if abs(x - y) > g + 1e-12 * max(abs(x), abs(y)):
            return False
    return True


def strip(v):
    return {k: x for k, x in v.items() if k != 'instr'}


class Local(Monitor):
    def __init__(self, col):
        self.col = col

    # --- expectation from stand-alone containers -------------------------------------------------------------
    def before(self, world, op):
        pp = world.pp
        k = op['op']
        if k not in ('transfer', 'remove', 'fill_to'):
            return None
        try:
            if k == 'transfer':
                rt = bench.RefTransfer(world, op)
                if rt.src_plate is None and rt.dst_plate is None:
                    return None
                info = {'kind': k, 'rt': rt, 'form': rt.form, 'fam': rt.fam}
                if rt.overlap or rt.form == 'invalid':
                    return info
                src_objs = self.live_wells(world, op['src'])
                dst_objs = self.live_wells(world, op['dst'])
                s = [copy.deepcopy(o) for o in src_objs]
                d = [copy.deepcopy(o) for o in dst_objs]
                try:
                    for i, j in rt._pairs():
                        s[i], d[j] = pp.Container.transfer(s[i], d[j], op['q'])
                    info['exp'] = ([bench.view_container(x) for x in s], [bench.view_container(x) for x in d])
                except Exception as e:  # noqa
                    info['exp_exc'] = e
                return info
            wells, pi, shape = bench.well_views(world, op['obj'])
            if pi is None:
                return None
            objs = self.live_wells(world, op['obj'])
            info = {'kind': k, 'wells': wells, 'pi': pi, 'fam': ''}
            try:
                if k == 'remove':
                    what = world.real[op['what']['s']] if 's' in op['what'] else op['what']['cls']
                    res = [copy.deepcopy(o).remove(what) for o in objs]
                else:
                    info['fam'] = op['q'].split(' ')[1][-1:]
                    res = [copy.deepcopy(o).fill_to(world.real[op['solvent']], op['q']) for o in objs]
                info['exp'] = [bench.view_container(x) for x in res]
            except Exception as e:  # noqa
                info['exp_exc'] = e
            return info
        except rsel.Invalid:
            return None

    def live_wells(self, world, r):
        e = world.pool[r['i']]
        if e.kind == 'c':
            return [e.obj]
        pi = bench.plate_index_of(world, r)
        plate = world.pool[pi].obj
        wells, _, _ = bench.well_views(world, r)
        return [plate.wells[c[0], c[1]] for c, _ in wells]

    def sel_form(self, world, r):
        e = world.pool[r['i']]
        if e.kind == 'c':
            return 'container'
        sel = r.get('sel') if e.kind == 'p' else e.meta['sel']
        if sel is None:
            return 'plate'
        t = sel['t']
        if t == 'rc':
            stepped = any(isinstance(sel[a], dict) and sel[a].get('k') not in (None, 1) for a in ('r', 'c'))
            return 'stepped' if stepped else 'rect'
        return t + ('-pooled' if e.kind == 's' else '')

    # --- judgement -------------------------------------------------------------------------------------------------
    def after(self, world, op, info, out):
        col = self.col
        if info is None:
            return
        k = info['kind']
        col.case()
        col.label(f"kind:{k}")
        case = world.case
        if k == 'transfer':
            rt = info['rt']
            col.label(f"form:{rt.form}")
            if rt.overlap:
                col.exclude('overlapping same-plate regions')
                return
            if rt.form == 'invalid':
                if out.ok:
                    col.report('shape/invalid-combination-accepted', {'src': rt.src_shape, 'dst': rt.dst_shape}, case)
                col.nontrivial_key(f"transfer|invalid|{self.sel_form(world, op['src'])}|{self.sel_form(world, op['dst'])}")
                return
            sforms = f"{self.sel_form(world, op['src'])}>{self.sel_form(world, op['dst'])}"
            if 'exp_exc' in info:
                if out.ok:
                    col.report(f"transfer/{rt.form}/standalone-refuses-plate-accepts",
                               {'standalone': repr(info['exp_exc'])[:160]}, case)
                return
            if not out.ok:
                col.report(f"transfer/{rt.form}/plate-refuses-standalone-accepts:{type(out.exc).__name__}",
                           {'exc': repr(out.exc)[:200], 'selectors': sforms}, case)
                return
            exp_s, exp_d = info['exp']
            rs, rd = out.new_entries[0].view, out.new_entries[1].view
            judged = [('src', exp_s, rs, rt.src, rt.src_plate), ('dst', exp_d, rd, rt.dst, rt.dst_plate)]
            if rt.same_plate and rs['k'] == 'p' and rd['k'] == 'p':
                # one plate is both source and destination: each of the two results is that plate after the transfer,
                # so the drained source wells show on the "destination" result and the filled wells on the "source" one
                judged += [('src-result-dst', exp_d, rs, rt.dst, rt.dst_plate), ('dst-result-src', exp_s, rd, rt.src, rt.src_plate)]
            for tag, exp, rview, wells, plate_i in judged:
                if rview['k'] == 'c':
                    if not same_container(world, exp[0], rview):
                        col.report(f"transfer/{rt.form}/{rt.fam}/{tag}-container-differs",
                                   {'expected': exp[0]['contents'], 'got': rview['contents']}, case)
                    continue
                before_plate = world.pool[plate_i].view
                touched = {c for c, _ in wells}
                if rt.same_plate:
                    touched = {c for c, _ in rt.src} | {c for c, _ in rt.dst}
                for idx, (c, _) in enumerate(wells):
                    if not same_container(world, exp[idx], rview['wells'][c[0]][c[1]]):
                        col.report(f"transfer/{rt.form}/{rt.fam}/{tag}-well-differs",
                                   {'well': list(c), 'expected': exp[idx]['contents'],
                                    'got': rview['wells'][c[0]][c[1]]['contents']}, case)
                        break
                self.untouched(world, before_plate, rview, touched, f"transfer/{rt.form}/{tag}", case)
            self.classify(world, op, k, rt.form, rt.fam, sforms, [rt.src, rt.dst], [rt.src_plate, rt.dst_plate])
            self.recipe_variant(world, op, out, case, k)
            return
        # remove / fill_to
        wells, pi = info['wells'], info['pi']
        sform = self.sel_form(world, op['obj'])
        if 'exp_exc' in info:
            if out.ok:
                col.report(f"{k}/standalone-refuses-plate-accepts", {'standalone': repr(info['exp_exc'])[:160]}, case)
            return
        if not out.ok:
            col.report(f"{k}/plate-refuses-standalone-accepts:{type(out.exc).__name__}",
                       {'exc': repr(out.exc)[:200], 'selector': sform}, case)
            return
        rview = out.new_entries[0].view
        if rview['k'] != 'p':
            col.report(f"{k}/result-is-not-a-plate", {'got': rview['k']}, case)
            return
        for idx, (c, _) in enumerate(wells):
            if not same_container(world, info['exp'][idx], rview['wells'][c[0]][c[1]]):
                col.report(f"{k}/{info['fam']}/well-differs", {'well': list(c), 'expected': info['exp'][idx]['contents'],
                                                               'got': rview['wells'][c[0]][c[1]]['contents']}, case)
                break
        self.untouched(world, world.pool[pi].view, rview, {c for c, _ in wells}, k, case)
        self.classify(world, op, k, '-', info['fam'], sform, [wells], [pi])
        self.recipe_variant(world, op, out, case, k)

    def untouched(self, world, before, after, touched, tag, case):
        for r, row in enumerate(before['wells']):
            for c, w in enumerate(row):
                if (r, c) not in touched and after['wells'][r][c] != w:
                    self.col.report(f"{tag}/unaddressed-well-changed", {'well': [r, c]}, case)
                    return
        for key in ('name', 'make', 'rows', 'cols', 'cap', 'shape'):
            if before[key] != after[key]:
                self.col.report(f"{tag}/plate-attribute-changed/{key}", {}, case)

    def classify(self, world, op, k, form, fam, sforms, well_lists, plate_is):
        col = self.col
        nontrivial = False
        for wells, pi in zip(well_lists, plate_is):
            if pi is None:
                continue
            pv = world.pool[pi].view
            total = pv['shape'][0] * pv['shape'][1]
            allw = [strip(w)['contents'] for row in pv['wells'] for w in row]
            if len(wells) < total and any(x != allw[0] for x in allw):
                nontrivial = True
        if nontrivial:
            col.nontrivial_key(f"{k}|{sforms}|{form}|{fam}|direct")
            col.sample(lambda: {'op': op, 'history_len': len(world.history)})

    # --- the same operation as a one-step recipe -------------------------------------------------------------------
    def recipe_variant(self, world, op, out, case, k):
        col, pp = self.col, world.pp
        refs = [op['src'], op['dst']] if k == 'transfer' else [op['obj']]
        objs = []
        for r in refs:
            live, pe, sel = bench.resolve_ref(world, r)
            decl = pe.obj if pe is not None else live
            objs.append((live, decl))
        names = [d.name for _, d in objs]
        decls = []
        for _, d in objs:
            if not any(d is x for x in decls):
                decls.append(d)
        if len({d.name for d in decls}) != len(decls):
            col.exclude('recipe variant: two different operands share a name')
            return
        col.label('recipe')
        recipe = pp.Recipe()
        try:
            recipe.uses(*decls)
            if k == 'transfer':
                recipe.transfer(objs[0][0], objs[1][0], op['q'])
            elif k == 'remove':
                what = world.real[op['what']['s']] if 's' in op['what'] else op['what']['cls']
                recipe.remove(objs[0][0], what)
            else:
                recipe.fill_to(objs[0][0], world.real[op['solvent']], op['q'])
            res = recipe.bake()
        except Exception as e:  # noqa
            sform = self.sel_form(world, refs[-1])
            if k == 'fill_to' and sform not in ('plate', 'all', 'container'):
                # one root cause with the 'differs' case below: bake fills the whole plate before the slice
                col.report("recipe/fill_to/slice/differs-from-direct", {'exc': repr(e)[:200]}, case)
            else:
                col.report(f"recipe/{k}/raises-where-direct-returns:{type(e).__name__}", {'exc': repr(e)[:200]}, case)
            return
        direct = {e.view['name']: e.view for e in out.new_entries}
        for name, dv in direct.items():
            if name not in res:
                col.report(f"recipe/{k}/result-missing", {'name': name}, case)
                continue
            rv = bench.view(res[name], pp)
            if dv['k'] == 'c':
                okay = same_container(world, dv, rv)
            else:
                okay = rv.get('k') == 'p' and all(same_container(world, a, b) for ra, rb in zip(dv['wells'], rv['wells'])
                                                  for a, b in zip(ra, rb))
            if not okay:
                sform = self.sel_form(world, refs[-1])
                whole = sform in ('plate', 'all')
                col.report(f"recipe/{k}/{'whole-plate' if whole else 'slice'}/differs-from-direct", {'object': name}, case)
        col.nontrivial_key(f"{k}|{self.sel_form(world, refs[-1])}|recipe")


PROFILE = {'weights': {'transfer': 6, 'container': 2, 'plate': 2, 'remove': 2, 'fill_to': 3, 'slice': 2},
           'q_modes': ['frac'] * 8 + ['over', 'whole'], 'self_transfer': False,
           'fill_modes': ['fit'] * 7 + ['below', 'over'], 'initial_plates': 2, 'initial_slices': 1}


def run(col):
    pp = core.env.bootstrap()
    prof = dict(PROFILE)
    prof['max_dim'] = 4 if col.tier == 'quick' else (4 if col.shard % 4 else 8)
    mon = Local(col)
    core.run_property(col, lambda: benchmachine.make_machine(col, pp, prof, mon),
                      budget(50, 800, col.tier), tag='bench', stateful_step_count=25 if col.tier == 'quick' else 40)


def replay(col, case):
    pp = core.env.bootstrap()
    benchmachine.replay_history(col, pp, case, Local(col))
