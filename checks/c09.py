"""C09 get_substance_used reports the net gain of the destinations over the timeframe.
Engine E2 + ledger of the eager environment at every step boundary."""
from hypothesis import given, strategies as st

from harness import core
from harness.core import budget
from engines import bench, programs
from refchem.model import RefCfg, split_unit, prefix_f

ID = 'C09'
SHARDS = {'quick': 8, 'thorough': 16}
RULE = ("@given baked programs (as C08; programs on which bake and the eager fold disagree are counted and skipped) "
        "with random stage partitions (consecutive, gaps, a stage left open at bake); ~10 queries per program: every "
        "substance incl. never-used ones, timeframe in {all, each stage}, destinations in {default 'plates', random "
        "subsets of the used objects, an object unknown to the recipe}, explicit unit from the substance's legal "
        "families x prefixes. Oracle: ledger = contents of every object at every step boundary of the eager fold; "
        "expected = sum over destinations (end - start) + amounts discarded by the remove steps of the timeframe "
        "(addressed wells only), converted by refchem, compared after rounding to config.precisions (half a unit + "
        "grains); expected clearly negative => ValueError; |expected| within the noise band => 0 or ValueError; "
        "unknown destination => ValueError; stages tiling the recipe add up to 'all'. non-trivial = >=2 stages "
        "with the substance moving in >=2 of them, or a remove involved, or a proper destination subset; distinct by "
        "(stage count, query kind, step-kind set)")
ASSUMPTIONS = ["dilute(new_name=...) is not generated here: the recipe keeps the object under its old key but renames "
               "it, and tracking-by-name of a renamed object has no documented meaning (bake==eager for it is C08's)",
               "explicit units only (documentation and code disagree on the default unit)",
               "ledger comes from the library's direct operations (validated by C01/C02/C17)"]
def shard_config(shard, tier):
    """two of eight shards run under other documented settings: storage units (mmol, mL), and default densities
    2.5 / 0.4 with display units that differ from the storage units"""
    return {5: {'moles_storage_unit': 'mmol', 'volume_storage_unit': 'mL'},
            6: {'default_solid_density': 2.5, 'default_enzyme_density': 0.4, 'moles_display_unit': 'nmol',
                'volume_display_unit': 'mL'}}.get(shard % 8)


REQUIRED_CLASSES = {'quick': ['query:subset', 'query:plates', 'timeframe:stage', 'with-remove'],
                    'thorough': ['query:subset', 'query:plates', 'timeframe:stage', 'with-remove', 'query:unknown-dest',
                                 'expect:negative']}


def check_program(col, pp, cfg, prog, queries=None, draw=None):
    core.env.clear_caches()
    pair = programs.baked_pair(col, pp, prog)
    if pair is None:
        return
    full = prog
    world, eager, rr, prog = pair        # for a chained program: the second recipe and its part of the ledger
    ref = world.ref
    recipe = rr.recipe
    steps = programs.real_steps(prog)
    stages = programs.stages_of(prog)
    keys = sorted(k for k in eager.env.keys() if k in rr.decl)     # objects this recipe knows (chains: the second one)
    if not keys or not steps:
        col.exclude('empty program')
        return
    plate_keys = [k for k in keys if eager.snapshots[-1][k]['k'] == 'p']
    remove_steps = [i for i, s in enumerate(steps) if s['op'] == 'remove']
    if remove_steps:
        col.label('with-remove')
    kinds = '+'.join(sorted({s['op'] for s in steps}))
    if queries is None:
        queries = []
        nq = draw(st.integers(4, 12))
        for _ in range(nq):
            si = draw(st.integers(0, len(world.subs) - 1))
            tf = draw(st.sampled_from(sorted(stages.keys())))
            mode = draw(st.sampled_from(['subset', 'subset', 'subset', 'plates', 'all-objects', 'unknown-dest']))
            if mode == 'subset':
                dest = draw(st.lists(st.sampled_from(keys), min_size=1, max_size=min(3, len(keys)), unique=True))
            elif mode == 'all-objects':
                dest = list(keys)
            elif mode == 'plates':
                dest = 'plates'
            else:
                dest = ['#unknown']
            # magnitude for unit choice
            mag = max([programs.amount_in(world, snap[k], world.subs[si].name) for snap in eager.snapshots for k in snap] + [0.0])
            unit = programs.natural_units(draw, world.subs[si], mag)
            queries.append({'sub': si, 'timeframe': tf, 'dest': dest, 'unit': unit})
            if dest != 'plates' and draw(st.integers(0, 2)) == 0:
                # destinations: Iterable[Container | Plate] - a tuple, or an iterator that can be walked only once
                queries[-1]['dest_form'] = draw(st.sampled_from(['tuple', 'iter']))
            if draw(st.integers(0, 3)) == 0 and dest != ['#unknown']:
                # the same question again in another unit: answers must not depend on what was asked before
                queries.append({'sub': si, 'timeframe': tf, 'dest': dest, 'unit': programs.natural_units(draw, world.subs[si], mag)})
    values = {}
    for q in queries:
        col.case()
        sub = world.subs[q['sub']]
        s0, s1 = stages[q['timeframe']]
        dest = q['dest']
        col.label(f"query:{'plates' if dest == 'plates' else 'unknown-dest' if dest == ['#unknown'] else 'subset'}")
        col.label(f"timeframe:{'all' if q['timeframe'] == 'all' else 'stage'}")
        case = {'program': True, 'subs': full['subs'], 'objects': full['objects'], 'steps': full['steps'], 'queries': [q]}
        if dest == ['#unknown']:
            try:
                got = recipe.get_substance_used(world.real[q['sub']], q['timeframe'], q['unit'], [pp.Container('never declared')])
                outcome = ('accepted', got)
            except ValueError:
                outcome = None
            except Exception as e:  # noqa
                outcome = ('raised', e)
            if outcome and outcome[0] == 'accepted':
                col.report('unknown-destination-accepted', {'got': outcome[1]}, case)
            elif outcome:
                col.report(f"unknown-destination/raised:{type(outcome[1]).__name__}", {'exc': repr(outcome[1])[:120]}, case)
            continue
        dkeys = plate_keys if dest == 'plates' else dest
        exp = 0.0
        nwells = 0
        mag = 0.0
        for k in dkeys:
            a0 = programs.amount_in(world, eager.snapshots[s0][k], sub.name) if k in eager.snapshots[s0] else 0.0
            a1 = programs.amount_in(world, eager.snapshots[s1][k], sub.name) if k in eager.snapshots[s1] else 0.0
            exp += a1 - a0
            mag += abs(a0) + abs(a1)
            if k in eager.snapshots[s1]:
                nwells += len(programs.wells_of(eager.snapshots[s1][k]))
        discarded = 0.0
        for i in remove_steps:
            if s0 <= i < s1:
                discarded += programs.removed_amounts(world, prog, eager, i).get(sub.name, 0.0)
        exp += discarded
        noise = ((s1 - s0) * max(nwells, 1) * 2 + 4) * ref.grain_base(sub.name) + 1e-12 * (mag + abs(discarded))
        pu, fam = split_unit(q['unit'])
        factor = sub.factor(fam) / prefix_f(pu)
        p = cfg.precision(q['unit'])
        if dest == 'plates':
            args = dict(timeframe=q['timeframe'], unit=q['unit'])
        else:
            dlist = [rr.decl[k] for k in dkeys]
            form = q.get('dest_form', 'list')
            args = dict(timeframe=q['timeframe'], unit=q['unit'],
                        destinations=tuple(dlist) if form == 'tuple' else iter(dlist) if form == 'iter' else dlist)
            col.label(f"destinations-as:{form}")
        try:
            got = recipe.get_substance_used(world.real[q['sub']], **args)
            exc = None
        except Exception as e:  # noqa
            got, exc = None, e
        involved_remove = any(s0 <= i < s1 for i in remove_steps)
        partial_remove = any(s0 <= i < s1 and steps[i]['obj'].get('sel', {'t': 'plate'})['t'] not in ('plate', 'all')
                             for i in remove_steps)
        tag = 'with-partial-plate-remove' if partial_remove else 'with-remove' if involved_remove else 'no-remove'
        solvent_ops = any(s0 <= i < s1 and steps[i]['op'] == 'solution' and 'o' in steps[i]['solvent'] and
                          steps[i]['solvent']['o'] in dkeys for i in range(len(steps)))
        if solvent_ops:
            tag += '+solvent-container-is-destination'
        if exp < -noise:
            col.label('expect:negative')
            if exc is None:
                col.report(f"net-decrease-not-refused/{tag}", {'got': got, 'expected_base': exp, 'query': q}, case)
            elif not isinstance(exc, ValueError):
                col.report(f"net-decrease/raised:{type(exc).__name__}", {'exc': repr(exc)[:120]}, case)
        elif exc is not None:
            if not (abs(exp) <= noise and isinstance(exc, ValueError)):
                col.report(f"raised:{type(exc).__name__}/{tag}", {'exc': repr(exc)[:160], 'expected_base': exp, 'query': q}, case)
        else:
            want = exp * factor
            tol = 0.5 * 10 ** -p * 1.000001 + noise * abs(factor) + 1e-9 * abs(want)
            if abs(got - want) > tol:
                col.report(f"wrong-amount/{tag}", {'got': got, 'expected': want, 'unit': q['unit'], 'query': q,
                                                   'discarded_base': discarded}, case)
            values[(q['sub'], q['timeframe'], q['unit'], repr(dest))] = (got, p)
        moving = sum(1 for nm, (a, b) in stages.items() if nm != 'all' and any(
            programs.amount_in(world, eager.snapshots[a][k], sub.name) != programs.amount_in(world, eager.snapshots[b][k], sub.name)
            for k in keys if k in eager.snapshots[a] and k in eager.snapshots[b]))
        if (len(stages) >= 3 and moving >= 2) or involved_remove or (dest != 'plates' and 0 < len(dkeys) < len(keys)):
            col.nontrivial_key(f"{len(stages) - 1}|{'plates' if dest == 'plates' else 'subset'}|{tag}|{kinds}")
            col.sample(lambda: {'steps': prog['steps'], 'query': q, 'expected_base': exp})
    # additivity over stages that tile the whole recipe
    named = sorted([(a, b, nm) for nm, (a, b) in stages.items() if nm != 'all'])
    tiles = named and named[0][0] == 0 and named[-1][1] == len(steps) and all(x[1] == y[0] for x, y in zip(named, named[1:]))
    if tiles and draw is not None and keys:
        si = draw(st.integers(0, len(world.subs) - 1))
        sub = world.subs[si]
        unit = programs.natural_units(draw, sub, 1e-4)
        dest = [rr.decl[k] for k in keys]
        try:
            total = recipe.get_substance_used(world.real[si], 'all', unit, dest)
            parts = [recipe.get_substance_used(world.real[si], nm, unit, dest) for _, _, nm in named]
        except ValueError:
            return
        col.case()
        p = cfg.precision(unit)
        if abs(sum(parts) - total) > (len(parts) + 1) * 0.5 * 10 ** -p * 1.001 + 1e-9 * abs(total):
            col.report('stages-do-not-add-up', {'total': total, 'parts': parts, 'unit': unit},
                       {'program': True, 'subs': full['subs'], 'objects': full['objects'], 'steps': full['steps'], 'queries': []})
        col.nontrivial_key(f"additivity|{len(parts)}|{kinds}")


def run(col):
    pp = core.env.bootstrap()
    cfg = RefCfg()
    prof = {'max_steps': 10 if col.tier == 'quick' else 20, 'max_dim': 3, 'keep_failing': False,
            'weights': {'remove': 4, 'transfer': 8}, 'dilute_new_name': False, 'chain': True}

    def t():
        @given(st.data())
        def test(data):
            core.env.clear_caches()
            prog = programs.gen_program(data.draw, pp, cfg, prof)
            check_program(col, pp, cfg, prog, draw=data.draw)
        return test
    core.run_property(col, t, budget(120, 2000, col.tier), tag='programs')


def replay(col, case):
    pp = core.env.bootstrap()
    check_program(col, pp, RefCfg(), case, queries=case.get('queries') or [])
