"""C05 create_solution meets every stated constraint or refuses.  Dedicated @given search; oracle = refchem's own
linear solve over the stated values (exact decimals), read-back of every stated constraint on the result."""
import math

import numpy
from hypothesis import given, strategies as st

from harness import core
from harness.core import budget
from engines import bench
from gen import basic
from gen.basic import render_q, PREFIX_POOL
from refchem import parse as rparse
from refchem.model import Ref, RefCfg, Sub, fill_defaults

ID = 'C05'
SHARDS = {'quick': 8, 'thorough': 16}
RULE = ("@given: 1-3 distinct solutes (solid/liquid/enzyme), solvent = pure liquid/solid substance or a container "
        "(1-3 components incl. bystander enzymes, none of the solutes); two of {concentration, quantity, "
        "total_quantity}, scalar or per-solute list; every concentration spelling (M, m, ratios with optional "
        "denominator value, %w/w %v/v %w/v, U/..) and every quantity unit/prefix. Constructed-feasible cases: sketch a "
        "mixture, state its values as exact decimals, re-solve with the reference; free cases: values drawn "
        "directly (mostly infeasible). Oracle when it returns: keys subset of solutes+solvent, all amounts > 0, "
        "every stated concentration (in its own unit), solute quantity and the total hold on the result within "
        "derived tolerance; container solvent: solution minus solutes is a uniform aliquot of the container and "
        "container_before == container_after + aliquot. Reference-feasible with margin => must return; reference "
        "needs a clearly non-positive amount or over-draws the solvent container => ValueError. non-trivial = "
        "returned and (>=2 solutes or non-molar unit pair or enzyme or container solvent); distinct by (which two, "
        "numerator/denominator/total unit families, kinds, solvent form)")
ASSUMPTIONS = ["concentration = solute amount / size of whole mixture in the denominator unit (read-back definition)",
               "stated concentrations are taken after the documented rounding to internal_precision decimals of the "
               "base-unit ratio; ratios below 1e-7 not generated",
               "solute != solvent, no duplicate solutes, solvent container does not hold a named solute",
               "ill-conditioned systems (cond > 1e9) are excluded and counted"]
def shard_config(shard, tier):
    """two of eight shards run under storage units whose prefixes differ from each other (documented settings)"""
    return {6: {'moles_storage_unit': 'mmol'}, 7: {'volume_storage_unit': 'nL', 'moles_storage_unit': 'umol'}}.get(shard % 8)


REQUIRED_CLASSES = {'quick': ['which:ct', 'which:cq', 'which:qt', 'solvent:substance', 'solvent:container',
                              'outcome:returned', 'outcome:ValueError'],
                    'thorough': ['which:ct', 'which:cq', 'which:qt', 'solvent:substance', 'solvent:container',
                                 'outcome:returned', 'outcome:ValueError', 'n:3']}

NUM_FAMS = {'solid': ['mol', 'g', 'L'], 'liquid': ['mol', 'g', 'L'], 'enzyme': ['U', 'g']}


class Pseudo:
    """the solvent as one unknown: a pure substance, or a fixed-composition container (amount = fraction t)"""

    def __init__(self, ref, sub=None, base=None):
        self.ref, self.sub, self.base = ref, sub, base

    def factor(self, fam):
        if self.sub is not None:
            return self.sub.factor(fam)
        return self.ref.size(self.base, fam)


def solve_reference(cfg, ref, solutes, solvent, spec):
    """spec: dict with parsed 'conc': [(c, num, den)], 'quant': [(q, fam)], 'total': (T, fam) (any two present).
    Returns (x vector or None, info)."""
    n = len(solutes)
    ents = solutes + [solvent]
    rows, rhs = [], []
    if 'conc' in spec:
        for i, (c, num, den) in enumerate(spec['conc']):
            row = [c * e.factor(den) for e in ents]
            row[i] -= solutes[i].factor(num)
            rows.append(row)
            rhs.append(0.0)
    if 'quant' in spec:
        for i, (q, fam) in enumerate(spec['quant']):
            row = [0.0] * (n + 1)
            row[i] = solutes[i].factor(fam)
            rows.append(row)
            rhs.append(q)
    if 'total' in spec:
        T, fam = spec['total']
        rows.append([e.factor(fam) for e in ents])
        rhs.append(T)
    A = numpy.array(rows[:n + 1], dtype=float)
    b = numpy.array(rhs[:n + 1], dtype=float)
    # scale rows for a meaningful condition number
    norm = numpy.abs(A).max(axis=1)
    if (norm == 0).any():
        return None, 'singular'
    As, bs = A / norm[:, None], b / norm
    colscale = numpy.abs(As).max(axis=0)
    if (colscale == 0).any():
        return None, 'singular'
    try:
        cond = numpy.linalg.cond(As / colscale[None, :])
        cond_rows = numpy.linalg.cond(As)       # the library equilibrates rows only
        if not math.isfinite(cond) or cond > 1e9 or not math.isfinite(cond_rows) or cond_rows > 1e8:
            return None, 'ill-conditioned'
        x = numpy.linalg.solve(A, b)
    except numpy.linalg.LinAlgError:
        return None, 'singular'
    # consistency of the remaining (over-determined) rows
    resid = 0.0
    for r, h in zip(rows[n + 1:], rhs[n + 1:]):
        resid = max(resid, abs(float(numpy.dot(r, x)) - h) / max(abs(h), 1e-300))
    return x, {'cond': cond, 'resid': resid}


def parse_spec(cfg, kw, n):
    spec = {}
    if 'concentration' in kw:
        cs = kw['concentration']
        cs = [cs] * n if isinstance(cs, str) else cs
        spec['conc'] = []
        for c in cs:
            exact, num, den = rparse.concentration(c, cfg.wv)
            spec['conc'].append((round(float(exact), cfg.P), num, den))
    if 'quantity' in kw:
        qs = kw['quantity']
        qs = [qs] * n if isinstance(qs, str) else qs
        spec['quant'] = [(float(v), fam) for v, fam in (rparse.quantity(q) for q in qs)]
    if 'total_quantity' in kw:
        v, fam = rparse.quantity(kw['total_quantity'])
        spec['total'] = (float(v), fam)
    return spec


def run_case(col, pp, cfg, case):
    """case: {'subs': [...], 'solutes': [idx], 'single': bool, 'solvent': {'s': idx} | {'c': [[idx, q], ...]},
             'kw': {...}, 'mode': 'constructed'|'free'}"""
    core.env.clear_caches()
    col.case()
    world = bench.World(pp, subs_json=case['subs'])
    ref = world.ref
    R = world.real
    n = len(case['solutes'])
    solutes = [world.subs[i] for i in case['solutes']]
    kw = case['kw']
    which = ''.join(sorted(k[0] for k in kw))        # 'ct' / 'cq' / 'qt'
    col.label(f"which:{which}")
    col.label(f"n:{n}")
    container_solvent = 'c' in case['solvent']
    col.label(f"solvent:{'container' if container_solvent else 'substance'}")
    if container_solvent:
        members = case['solvent']['c']
        if case['solvent'].get('aged') and len(members) > 1:
            # the same mixture reached through a history: the first member alone is used as the solvent of a
            # throw-away solution, then the other members are poured in.  What create_solution does with a container
            # depends on what it holds now, not on how it got there (the reference reads the final contents).
            cont = pp.Container('stock', initial_contents=[(R[members[0][0]], members[0][1])])
            try:
                prime = R[case['solutes'][0]]
                cont = pp.Container.create_solution(prime, cont, 'prime', quantity='1 U' if prime.is_enzyme() else '1 umol',
                                                    total_quantity=f"{cont.volume * 0.01 * cfg.vol_mult / 1e-6:.6f} uL")[0]
                col.label('solvent:container-used-as-solvent-before')
            except Exception:  # noqa  (the priming call is not judged here)
                pass
            try:
                for i, q in members[1:]:
                    cont = pp.Container.transfer(pp.Container('more', initial_contents=[(R[i], q)]), cont, q)[1]
            except Exception:  # noqa
                cont = pp.Container('stock', initial_contents=[(R[i], q) for i, q in members])
        else:
            cont = pp.Container('stock', initial_contents=[(R[i], q) for i, q in members])
        cview = bench.view_container(cont)
        cbase = world.base(cview)
        solvent_p = Pseudo(ref, base=cbase)
        solvent_arg = cont
    else:
        ssub = world.subs[case['solvent']['s']]
        solvent_p = Pseudo(ref, sub=ssub)
        solvent_arg = R[case['solvent']['s']]
    try:
        spec = parse_spec(cfg, kw, n)
    except rparse.Unreadable:
        col.exclude('unreadable spec')
        return
    x, info = solve_reference(cfg, ref, solutes, solvent_p, spec)
    sol_arg = R[case['solutes'][0]] if case.get('single') and n == 1 else [R[i] for i in case['solutes']]
    pre = bench.view([solvent_arg], pp)
    kwargs = {k: (list(v) if isinstance(v, list) else v) for k, v in kw.items()}
    try:
        res = pp.Container.create_solution(sol_arg, solvent_arg, 'result', **kwargs)
        exc = None
    except Exception as e:  # noqa
        res, exc = None, e
    col.label(f"outcome:{'returned' if exc is None else type(exc).__name__}")
    if bench.view([solvent_arg], pp) != pre:
        col.report('create_solution/solvent-argument-mutated', {}, case)
    # the same request made again with the very same argument objects (a caller preparing a series in a loop) is the
    # same request: same decision, same mixture
    try:
        res2 = pp.Container.create_solution(sol_arg, solvent_arg, 'result', **kwargs)
        exc2 = None
    except Exception as e:  # noqa
        res2, exc2 = None, e
    col.label('repeated-call')
    if (exc is None) != (exc2 is None):
        col.report(f"create_solution/repeated-call-decides-differently",
                   {'first': repr(exc)[:100], 'second': repr(exc2)[:100], 'kw': kw}, case)
    elif exc is None and bench.view(list(res) if isinstance(res, tuple) else [res], pp) != \
            bench.view(list(res2) if isinstance(res2, tuple) else [res2], pp):
        col.report(f"create_solution/repeated-call-differs", {'kw': kw}, case)
    numfams = '+'.join(sorted({c[1] for c in spec.get('conc', [])} | {q[1] for q in spec.get('quant', [])}))
    denfams = '+'.join(sorted({c[2] for c in spec.get('conc', [])}))
    sig_tail = f"{which}/{'container' if container_solvent else 'substance'}-solvent"
    # verdict from the reference
    verdict = 'dontcare'
    if x is None:
        col.exclude(f"reference: {info}")
    else:
        # margins relative to the size of the mixture
        scale = [abs(x[i]) for i in range(n + 1)]
        rel = [x[i] / max(max(scale), 1e-300) for i in range(n + 1)]
        if all(xi > 0 for xi in x) and min(rel) > 1e-7 and info['resid'] < 1e-9:
            verdict = 'accept'
            if container_solvent and x[-1] > 1 - 1e-6:
                verdict = 'refuse' if x[-1] > 1 + 1e-6 else 'dontcare'
            if container_solvent and which == 'cq' and n > 1:
                # over-determined with a container as solvent: its effective molar mass and density are formed from
                # moles (in mol) and volume (in mL) after the documented output rounding to internal precision, so for a
                # small container (6.9 umol -> 0.0000068669 mol) they are good to grain / moles only, while the
                # consistency test asks for 1e-6: consistent values may then legitimately be refused
                if cfg.grain / ref.size(cbase, 'mol') + cfg.grain / (ref.size(cbase, 'L') * 1000) > 1e-7:
                    verdict = 'dontcare'
        elif any(xi < 0 and abs(r) > 1e-7 for xi, r in zip(x, rel)):
            verdict = 'refuse'
        elif info['resid'] > 1e-3:
            verdict = 'refuse'      # over-determined values that contradict each other
    col.label(f"verdict:{verdict}")
    if exc is not None:
        if not isinstance(exc, ValueError):
            col.report(f"create_solution/{sig_tail}/raised:{type(exc).__name__}", {'exc': repr(exc)[:160], 'kw': kw}, case)
        elif verdict == 'accept':
            col.report(f"create_solution/{sig_tail}/feasible-refused/{numfams}-per-{denfams or '-'}",
                       {'exc': str(exc)[:100], 'reference_amounts': [float(v) for v in x], 'kw': kw}, case)
        return
    if verdict == 'refuse':
        col.report(f"create_solution/{sig_tail}/infeasible-returned", {'reference_amounts': [float(v) for v in x], 'kw': kw}, case)
        return
    # read back every stated constraint on the result
    if container_solvent:
        left, result = res
    else:
        left, result = None, res
    rview = bench.view_container(result)
    rbase = world.base(rview)
    allowed = {s.name for s in solutes} | (set(cbase) if container_solvent else {solvent_p.sub.name})
    for nme, amt in rview['contents']:
        if nme not in allowed:
            col.report(f"create_solution/{sig_tail}/foreign-substance", {'substance': nme}, case)
        if not amt > 0 and not (container_solvent and nme in cbase and cbase[nme] == 0):
            col.report(f"create_solution/{sig_tail}/non-positive-amount", {'substance': nme, 'amount': amt}, case)
    for s in solutes:
        if s.name not in rbase:
            col.report(f"create_solution/{sig_tail}/solute-missing", {'substance': s.name}, case)
            return
    gsum = sum(ref.grain_base(nm) / a for nm, a in rbase.items() if a > 0)
    tol = 4 * gsum + 1e-8
    if which == 'cq' and n > 1:
        # over-determined: the library accepts stated values that agree to 1e-6 relative (its residual test)
        tol = max(tol, 2e-6)
    if container_solvent:
        # the effective molar mass / density of a solvent container are formed from its moles and volume after
        # rounding to internal precision in mol and mL (documented output rounding of the storage conversions)
        cmol, cml = ref.size(cbase, 'mol'), ref.size(cbase, 'L') * 1000
        tol += 2 * cfg.grain / cmol + 2 * cfg.grain / cml
    for i, (c, num, den) in enumerate(spec.get('conc', [])):
        got = ref.conc(rbase, solutes[i].name, num, den)
        if abs(got - c) > (tol + 1.01 * cfg.grain / c) * c:      # the parser rounds the stated ratio to one grain
            col.report(f"create_solution/{sig_tail}/concentration-not-met/{num}-per-{den}/{solutes[i].kind}",
                       {'stated': kw['concentration'], 'target': c, 'got': got, 'solute': solutes[i].name}, case)
    for i, (q, fam) in enumerate(spec.get('quant', [])):
        got = rbase[solutes[i].name] * solutes[i].factor(fam)
        if abs(got - q) > tol * q + 1e-6 * 0:
            col.report(f"create_solution/{sig_tail}/quantity-not-met/{fam}/{solutes[i].kind}",
                       {'stated': kw['quantity'], 'target': q, 'got': got}, case)
    if 'total' in spec:
        T, fam = spec['total']
        got = ref.size(rbase, fam)
        if abs(got - T) > tol * T:
            col.report(f"create_solution/{sig_tail}/total-not-met/{fam}", {'target': T, 'got': got, 'kw': kw}, case)
    if container_solvent:
        lbase = world.base(bench.view_container(left))
        # solvent part = solution minus solutes must be a uniform aliquot; nothing lost
        part = {nm: rbase.get(nm, 0.0) for nm in cbase}
        # the common fraction, estimated with each substance weighted by how many storage grains it holds (a plain
        # mean would let the rounding of a trace component move the estimate for the main one)
        wts = {nm: cbase[nm] / ref.grain_base(nm) for nm in cbase if cbase[nm] > 0}
        t = sum(wts[nm] * part[nm] / cbase[nm] for nm in wts) / sum(wts.values()) if wts else 0.0
        for nm in cbase:
            g = 4 * ref.grain_base(nm)
            if abs(part[nm] - t * cbase[nm]) > g + 1e-7 * cbase[nm]:
                col.report(f"create_solution/{sig_tail}/solvent-part-not-uniform-aliquot",
                           {'substance': nm, 'fraction_mean': t, 'fraction': part[nm] / cbase[nm] if cbase[nm] else None}, case)
            if abs(lbase.get(nm, 0.0) + part[nm] - cbase[nm]) > g + 1e-12 * cbase[nm]:
                col.report(f"create_solution/{sig_tail}/solvent-container-not-conserved",
                           {'substance': nm, 'before': cbase[nm], 'left': lbase.get(nm, 0.0), 'in_solution': part[nm]}, case)
    kinds = ''.join(sorted({s.kind[0] for s in solutes}))
    if n >= 2 or 'e' in kinds or container_solvent or numfams != 'mol' or denfams not in ('L', ''):
        col.nontrivial_key(f"{which}|{numfams}|{denfams}|{spec.get('total', ('', ''))[1]}|{kinds}|{container_solvent}")
        col.sample(lambda: {k: case[k] for k in ('solutes', 'solvent', 'kw', 'mode')})


# ------------------------------------------------------------------------------------------------ generation

@st.composite
def cases(draw, cfg):
    subs = draw(basic.substance_pool(cfg, max_extra=2))
    ref = Ref(cfg, subs)
    n = draw(st.sampled_from([1, 1, 2, 2, 3]))
    idx = list(range(len(subs)))
    solutes = draw(st.lists(st.sampled_from(idx), min_size=n, max_size=n, unique=True))
    rest = [i for i in idx if i not in solutes and not subs[i].enzyme]
    liquids = [i for i in rest if subs[i].kind == 'liquid']
    if not liquids:
        solutes = [i for i in solutes if subs[i].kind != 'liquid' or i != 0][:max(1, n - 1)] or [1]
        solutes = [i for i in solutes if i != 0] or [1]
        n = len(solutes)
        rest = [i for i in idx if i not in solutes and not subs[i].enzyme]
        liquids = [i for i in rest if subs[i].kind == 'liquid']
    use_container = draw(st.integers(0, 2)) == 0
    vtot = 10 ** draw(st.floats(-4, -1.5))                        # litres
    if use_container:
        k = draw(st.integers(1, 3))
        members = [draw(st.sampled_from(liquids))]
        others = [i for i in idx if i not in solutes and i not in members]
        if k > 1 and others:
            members += draw(st.lists(st.sampled_from(others), min_size=1, max_size=k - 1, unique=True))
        contents = []
        cbase = {}
        cvol = vtot * draw(st.floats(1.5, 10.0))
        for j, i in enumerate(members):
            sub = subs[i]
            share = 1.0 if j == 0 else draw(st.floats(0.01, 0.3))
            fam = draw(st.sampled_from(NUM_FAMS[sub.kind]))
            if sub.factor('L') > 0:
                amt = share * cvol / sub.factor('L')
                if sub.enzyme:
                    amt = min(amt, 2.0)
            else:
                amt = share * cvol * 1000 / sub.factor('g')
            q = render_q(amt * sub.factor(fam), fam, draw(st.sampled_from(PREFIX_POOL)), 0, 6)
            contents.append([i, q.text])
            cbase[sub.name] = float(q.value) / sub.factor(fam)
        solvent = {'c': contents}
        if len(contents) > 1 and draw(st.booleans()):
            solvent['aged'] = True
        stot = ref.size(cbase, 'L')
        mix = {nm: a / stot * vtot for nm, a in cbase.items()}
    else:
        si = draw(st.sampled_from(liquids if draw(st.integers(0, 5)) else rest))
        solvent = {'s': si}
        ssub = subs[si]
        mix = {ssub.name: vtot / ssub.factor('L') if ssub.factor('L') > 0 else vtot * 1000 / ssub.factor('g')}
    for si in solutes:
        sub = subs[si]
        share = draw(st.floats(0.002, 0.2))
        if sub.factor('L') > 0:
            amt = share * vtot / sub.factor('L')
            if sub.enzyme:
                amt = min(amt, 3.0)
        else:
            amt = share * vtot * 1000 / sub.factor('g')
        mix[sub.name] = amt
    mode = draw(st.sampled_from(['constructed'] * 3 + ['free']))
    which = draw(st.sampled_from(['ct', 'cq', 'qt']))
    kw = {}
    distort = (lambda v: v * 10 ** draw(st.floats(-2, 2))) if mode == 'free' else (lambda v: v)
    concs = None
    if 'c' in which:
        concs = []
        same_unit = draw(st.booleans())
        num0 = den0 = None
        for si in solutes:
            sub = subs[si]
            num = draw(st.sampled_from(NUM_FAMS[sub.kind]))
            den = draw(st.sampled_from(['L', 'L', 'g', 'mol']))
            if same_unit and den0 is not None:
                den = den0
            den0 = den
            xc = distort(ref.conc(mix, sub.name, num, den))
            concs.append(draw(basic.conc_spelling(xc, num, den, cfg.wv)))
        kw['concentration'] = [c.text for c in concs]
    if 't' in which:
        fam = draw(st.sampled_from(['L', 'L', 'g', 'mol']))
        kw['total_quantity'] = render_q(distort(ref.size(mix, fam)), fam, draw(st.sampled_from(PREFIX_POOL)),
                                        draw(st.integers(0, 2)), 6).text
    if 'q' in which:
        qs = []
        fams = [draw(st.sampled_from(NUM_FAMS[subs[si].kind])) for si in solutes]
        if which == 'cq' and n > 1 and mode == 'constructed':
            # over-determined: fix the concentrations and the first quantity, derive the others from the reference
            first = render_q(mix[subs[solutes[0]].name] * subs[solutes[0]].factor(fams[0]), fams[0],
                             draw(st.sampled_from(PREFIX_POOL)), 0, 6)
            sol_p = Pseudo(ref, sub=subs[solvent['s']]) if 's' in solvent else Pseudo(ref, base=cbase)
            spec = {'conc': [(round(float(c.value), cfg.P), c.num, c.den) for c in concs],
                    'quant': [(float(first.value), fams[0])]}
            # solve n conc rows + first quantity row
            x, info = solve_reference(cfg, ref, [subs[i] for i in solutes], sol_p, spec)
            qs.append(first.text)
            for j in range(1, n):
                val = (x[j] if x is not None else mix[subs[solutes[j]].name]) * subs[solutes[j]].factor(fams[j])
                qs.append(render_q(abs(val) if val else 1e-9, fams[j], draw(st.sampled_from(['', 'm', 'u'])), 1, 15).text)
        else:
            for si, fam in zip(solutes, fams):
                qs.append(render_q(distort(mix[subs[si].name] * subs[si].factor(fam)), fam,
                                   draw(st.sampled_from(PREFIX_POOL)), draw(st.integers(0, 2)), 6).text)
        kw['quantity'] = qs
    # scalar forms when a single solute
    single = n == 1 and draw(st.booleans())
    for key in ('concentration', 'quantity'):
        if key in kw and n == 1 and draw(st.booleans()):
            kw[key] = kw[key][0]
    return {'subs': [s.to_json() for s in subs], 'solutes': solutes, 'single': single, 'solvent': solvent, 'kw': kw,
            'mode': mode}


def run(col):
    pp = core.env.bootstrap()
    cfg = RefCfg()

    def t():
        @given(cases(cfg))
        def test(case):
            run_case(col, pp, cfg, case)
        return test
    core.run_property(col, t, budget(500, 12000, col.tier), tag='create_solution')


def replay(col, case):
    pp = core.env.bootstrap()
    run_case(col, pp, RefCfg(), case)
