"""C18 Answers in user units do not depend on the internal storage configuration.
Engine E5: the same generated script is executed in worker processes under different pyplate.yaml storage settings."""
import json
import math
import os
import subprocess
import sys

from hypothesis import given, strategies as st

from harness import core, env
from harness.core import budget
from engines import bench, benchgen, programs
from refchem.model import RefCfg, prefix_f, split_unit
from refchem import parse as rparse

ID = 'C18'
SHARDS = {'quick': 8, 'thorough': 16}
RULE = ("@given scripts: (1) bench histories of 3-12 direct operations (construct, transfer in every pairing form, "
        "remove, fill_to, dilute, create_solution, create_solution_from; amounts >= 10 uL with <= 6 significant "
        "digits; requests kept >= 5 % away from feasibility boundaries) closed by a battery of user-unit reads "
        "(get_volume / volume / max_volume in uL and mL, every amount in umol and in g, get_concentration in M and "
        "g/L, plate get_volumes / get_moles / get_volume); (2) recipe programs with tracking queries "
        "(get_substance_used, get_container_flows, get_amount_remaining, result volumes, RecipeStep.dataframe) in "
        "explicit units. Each script runs in one persistent worker process per configuration: baseline (umol, uL, "
        "P=10) vs (mol, L), (mmol, mL), (nmol, nL), (umol, mL), (mmol, uL), (dmol, dL), (damol, daL), P=12, and "
        "the same under default densities 2.5 / 0.4 (compared with a baseline of that density). Oracle: identical "
        "accept/refuse decision and exception class per operation, numeric answers within the coarser "
        "configuration's derived tolerance (k grains of the storage units converted to the answer's unit); a "
        "configuration under which the library cannot start or run a script at all is a violation. non-trivial = "
        "script with >= 3 operations touching >= 2 unit families; distinct by (configuration, op-kind set)")
ASSUMPTIONS = ["documented settings: moles_storage_unit = <prefix>mol, volume_storage_unit = <prefix>L (prefixed or not)",
               "answers are compared in user units only; stored numbers are never compared",
               "tolerance: grains of the coarser storage unit; amounts are kept >= 1e5 grains of every configuration"]
REQUIRED_CLASSES = {'quick': ['script:history', 'script:program'], 'thorough': ['script:history', 'script:program', 'density-variant']}

CONFIGS = [
    ('mol-L', {'moles_storage_unit': 'mol', 'volume_storage_unit': 'L'}),
    ('mmol-mL', {'moles_storage_unit': 'mmol', 'volume_storage_unit': 'mL'}),
    ('nmol-nL', {'moles_storage_unit': 'nmol', 'volume_storage_unit': 'nL'}),
    ('umol-mL', {'moles_storage_unit': 'umol', 'volume_storage_unit': 'mL'}),
    ('mmol-uL', {'moles_storage_unit': 'mmol', 'volume_storage_unit': 'uL'}),
    ('dmol-dL', {'moles_storage_unit': 'dmol', 'volume_storage_unit': 'dL'}),
    ('damol-daL', {'moles_storage_unit': 'damol', 'volume_storage_unit': 'daL'}),
    ('P12', {'internal_precision': 12}),
]
DENSITY = {'default_solid_density': 2.5, 'default_enzyme_density': 0.4}


def shard_config(shard, tier):
    """the density-variant shards of the thorough tier generate (state-aware) under the same default densities as
    their workers, so that what is generated as feasible is feasible there"""
    return dict(DENSITY) if tier == 'thorough' and shard % 2 == 1 else None


class Worker:
    def __init__(self, name, overrides):
        self.name, self.overrides = name, overrides
        self.dir = env.make_config_dir(overrides)
        e = dict(os.environ, PYPLATE_CONFIG=self.dir, PYTHONHASHSEED='0', PYTHONDONTWRITEBYTECODE='1')
        self.p = subprocess.Popen([sys.executable, '-u', '-m', 'checks.c18_worker'], cwd=env.VERIF_DIR, env=e,
                                  stdin=subprocess.PIPE, stdout=subprocess.PIPE, stderr=subprocess.DEVNULL, text=True)
        line = self.p.stdout.readline()
        self.hello = json.loads(line) if line.strip() else {'ready': False, 'crash': 'no output', 'msg': ''}
        self.cfg = RefCfg(os.path.join(self.dir, 'pyplate.yaml'))

    def ask(self, script):
        if not self.hello.get('ready'):
            return {'crash': self.hello.get('crash'), 'msg': self.hello.get('msg')}
        self.p.stdin.write(json.dumps(script) + '\n')
        self.p.stdin.flush()
        line = self.p.stdout.readline()
        if not line.strip():
            return {'crash': 'worker died', 'msg': ''}
        return json.loads(line)

    def close(self):
        import shutil
        try:
            self.p.stdin.close()
            self.p.wait(timeout=5)
        except Exception:
            self.p.kill()
        shutil.rmtree(self.dir, ignore_errors=True)


def grains(cfgs, world, names, fam, unit_prefix):
    """one grain of each configuration's storage for the given substances, expressed in the answer's unit"""
    g = 0.0
    for cfg in cfgs:
        for n in names:
            sp = world.ref.subs[n]
            per = cfg.grain * (1.0 if sp.enzyme else cfg.mol_mult)
            g += per * abs(sp.factor(fam))
        if fam == 'L':
            g += cfg.grain * cfg.vol_mult
        # a request is rounded to internal precision in ITS base unit (g, L, mol, U) before it is used: one such grain
        # of the substance, expressed in the answer's family (1e-10 g of an enzyme of 73.8 U/mg is 7.4e-6 U)
        for n in names:
            sp = world.ref.subs[n]
            for rfam in ('g', 'L', 'mol', 'U'):
                f = abs(sp.factor(rfam))
                if f > 0 and math.isfinite(f) and math.isfinite(sp.factor(fam)):
                    g += cfg.grain * abs(sp.factor(fam)) / f
    return g / prefix_f(unit_prefix)


def min_request(ops):
    """smallest positive requested quantity (in its base unit) among the steps: its rounding grain is relative to it"""
    vals = []
    for op in ops:
        q = op.get('q')
        if isinstance(q, str):
            try:
                v, _ = rparse.quantity(q)
            except rparse.Unreadable:
                continue
            if v > 0:
                vals.append(float(v))
    return max(min(vals) if vals else 1.0, 1e-12)


def compare_values(a, b, tol, rel=1e-7):
    if isinstance(a, list) and isinstance(b, list):
        return len(a) == len(b) and all(compare_values(x, y, tol, rel) for x, y in zip(a, b))
    if isinstance(a, dict) and isinstance(b, dict):
        return a.keys() == b.keys() and all(compare_values(a[k], b[k], tol, rel) for k in a)
    if isinstance(a, (int, float)) and isinstance(b, (int, float)):
        return abs(a - b) <= tol + rel * max(abs(a), abs(b))
    return a == b


PROFILE = {'weights': {'transfer': 6, 'container': 3, 'plate': 1, 'remove': 1, 'fill_to': 2, 'create_solution': 2,
                       'dilute': 2, 'create_solution_from': 1},
           'q_modes': ['frac'] * 9 + ['over'], 'self_transfer': False, 'safe_margins': True, 'min_log_uL': 1.5,
           'fill_modes': ['fit'] * 7 + ['below', 'over'], 'dilute_modes': ['lower'] * 8 + ['higher'], 'max_dim': 2,
           'solvent_containers': True, 'solution_from_container_solvent': True}


def gen_history(draw, pp, cfg):
    from engines.benchmachine import GENS
    subs = draw(benchgen.basic.substance_pool(cfg, max_extra=1))
    world = bench.World(pp, subs=subs)
    kinds = [k for k, w in PROFILE['weights'].items() for _ in range(w)]
    for _ in range(2):
        bench.execute(world, benchgen.gen_container(world, draw, PROFILE))
    bench.execute(world, benchgen.gen_plate(world, draw, PROFILE))
    n = draw(st.integers(3, 12))
    for _ in range(n):
        kind = draw(st.sampled_from(kinds))
        op = GENS[kind](world, draw, PROFILE)
        if op is None:
            continue
        if op['op'] == 'transfer':
            try:
                rt = bench.RefTransfer(world, op)
            except Exception:
                continue
            if rt.overlap or rt.self_transfer:
                continue
            if rt.verdict() == 'dontcare' and rt.q != 0:
                continue           # too close to a boundary for a cross-configuration verdict
        bench.execute(world, op)
    # battery of reads on the last objects
    reads = []
    idxs = [i for i, e in enumerate(world.pool) if e.kind in ('c', 'p')][-8:]
    for i in idxs:
        e = world.pool[i]
        if e.kind == 'c':
            names = [n for n, _ in e.view['contents']]
            for u in ('uL', 'mL'):
                reads.append({'i': i, 'read': 'get_volume', 'unit': u, 'fam': 'L', 'names': names})
            reads.append({'i': i, 'read': 'volume_attr', 'unit': 'uL', 'fam': 'L', 'names': names})
            reads.append({'i': i, 'read': 'max_volume', 'unit': 'mL', 'fam': 'L', 'names': []})
            for n in names:
                si = world.by_name[n]
                sp = world.ref.subs[n]
                reads.append({'i': i, 'read': 'amount', 'sub': si, 'unit': 'umol', 'fam': 'U' if sp.enzyme else 'mol', 'names': [n]})
                reads.append({'i': i, 'read': 'amount_as', 'sub': si, 'unit': 'mg', 'fam': 'g', 'names': [n]})
                reads.append({'i': i, 'read': 'get_concentration', 'sub': si, 'unit': 'U/mL' if sp.enzyme else 'M', 'conc': True, 'names': names})
                reads.append({'i': i, 'read': 'get_concentration', 'sub': si, 'unit': 'g/L', 'conc': True, 'names': names})
            reads.append({'i': i, 'read': 'instructions', 'text': True})
        else:
            names = sorted({n for row in e.view['wells'] for w in row for n, _ in w['contents']})
            reads.append({'i': i, 'read': 'get_volumes', 'unit': 'uL', 'fam': 'L', 'names': names, 'rounded': 'uL'})
            reads.append({'i': i, 'read': 'plate_get_volume', 'unit': 'uL', 'fam': 'L', 'names': names, 'rounded': 'uL', 'wells': e.view['shape'][0] * e.view['shape'][1]})
            for n in names[:2]:
                si = world.by_name[n]
                reads.append({'i': i, 'read': 'get_moles', 'sub': si, 'unit': 'nmol', 'fam': 'mol', 'names': [n], 'rounded': 'nmol'})
                reads.append({'i': i, 'read': 'get_volumes_sub', 'sub': si, 'unit': 'nL', 'fam': 'L', 'names': [n], 'rounded': 'nL'})
    return world, reads


def near_boundary(world, op, cfgs, K):
    """is the request of this op within K storage grains (of either configuration, expressed in the request's unit) of
    the point where accept turns into refuse?  Decisions there legitimately depend on the configured grain."""
    ref = world.ref
    try:
        v, fam = rparse.quantity(op['q'])
        q = float(v)
        if op['op'] == 'fill_to':
            solvent = world.subs[op['solvent']].name
            for _, w in bench.well_views(world, op['obj'])[0]:
                b = world.base(w)
                if abs(q - ref.size(b, fam)) <= K * grains(cfgs, world, set(b) | {solvent}, fam, ''):
                    return True
        elif op['op'] == 'transfer':
            for _, w in bench.well_views(world, op['src'])[0]:
                b = world.base(w)
                G = K * grains(cfgs, world, set(b), fam, '')
                if abs(ref.size(b, fam) - q) <= G or abs(q) <= G:
                    return True
    except Exception:  # noqa  (unreadable request, invalid selector: not a boundary question)
        return False
    return False


def judge_history(col, world, reads, base, other, bw, ow, case):
    cfgs = [bw.cfg, ow.cfg]
    tag = ow.name
    if 'crash' in other or 'crash' in base:
        which = other if 'crash' in other else base
        col.report(f"config={tag}/crash:{which.get('crash')}", {'msg': which.get('msg')}, case)
        return
    nops = len(world.history)
    K = 4 * nops + 8
    for i, (a, b) in enumerate(zip(base['outcomes'], other['outcomes'])):
        ca, cb = a.split(':')[0], b.split(':')[0]
        if {ca, cb} <= {'ValueError', 'LinAlgError'}:
            continue                     # numpy's LinAlgError is a ValueError: both are the documented refusal
        if ca != cb:
            if K * sum(c.grain for c in cfgs) / min_request(world.history[:i + 1]) > 0.02:
                # some request so far is within a few dozen rounding grains of its own base unit (0.57 ng at 1e-10 g):
                # the two configurations carried out visibly different requests, margins of 5 % do not cover that
                col.exclude('a request of a few rounding grains: decisions legitimately differ')
                return
            if near_boundary(world, world.history[i], cfgs, K):
                col.exclude('decision differs within a few storage grains of the feasibility boundary')
                return
            col.report(f"config={tag}/decision-differs/{world.history[i]['op']}/{ca}-vs-{cb}",
                       {'op_index': i, 'baseline': a, 'other': b}, case)
            return
    if 'unreachable' in base['outcomes'] or 'unreachable' in other['outcomes']:
        return
    # smallest non-empty volume (litres) and smallest positive non-enzyme amount (mol) anywhere in the history
    vols, mols = [], []
    for e in world.pool:
        if e.kind not in ('c', 'p'):
            continue
        for _, w in programs.wells_of(e.view):
            b = world.base(w)
            v = world.ref.size(b, 'L')
            if v > 0:
                vols.append(v)
            mols += [x for n, x in b.items() if x > 0 and not world.ref.subs[n].enzyme]
    # ... and the aliquots that create_solution(_from) draws from its stock / solvent containers, which never show as a
    # vessel of their own (0.0095 uL of a dense stock is 95 grains of 1e-10 L): input minus what is left of it
    for e in world.pool:
        if e.kind != 'c' or not isinstance(e.origin, int) or e.origin >= len(world.history):
            continue
        hop = world.history[e.origin]
        if hop['op'] not in ('create_solution', 'create_solution_from'):
            continue
        inputs = [hop.get('src')] if hop['op'] == 'create_solution_from' else []
        if isinstance(hop.get('solvent'), dict) and 'c' in hop['solvent']:
            inputs.append(hop['solvent']['c'])
        for i_ in inputs:
            if isinstance(i_, int) and i_ < len(world.pool) and world.pool[i_].view.get('name') == e.view.get('name'):
                dv = abs(world.ref.size(world.base(world.pool[i_].view), 'L') - world.ref.size(world.base(e.view), 'L'))
                if dv > 0:
                    vols.append(dv)
    min_vol = max(min(vols) if vols else 1e-5, 1e-9)
    min_mol = max(min(mols) if mols else 1e-7, 1e-12)
    enz = [x for e in world.pool if e.kind in ('c', 'p') for _, w in programs.wells_of(e.view)
           for n, x in world.base(w).items() if x > 0 and world.ref.subs[n].enzyme]
    min_enz = max(min(enz) if enz else 1.0, 1e-9)
    for r, a, b in zip(reads, base['reads'], other['reads']):
        if ('exc' in a) != ('exc' in b) or ('exc' in a and a['exc'] != b['exc']):
            col.report(f"config={tag}/read-outcome-differs/{r['read']}", {'read': r, 'baseline': a, 'other': b}, case)
            return
        if 'exc' in a:
            continue
        if r.get('text'):
            continue           # instruction text is compared by C19 within one configuration
        # relative effect of one storage grain on an aliquot ratio: grain of the cached volume / the smallest volume
        # handled, and grain of an amount / the smallest amount; taken per operation of the history
        gvol = sum(c.grain * c.vol_mult + sum(c.grain * (1.0 if sp.enzyme else c.mol_mult) * abs(sp.factor('L'))
                                              for sp in world.ref.subs.values()) for c in cfgs)
        rel = K * (gvol / min_vol + sum(c.grain * c.mol_mult for c in cfgs) / min_mol + sum(c.grain for c in cfgs) / min_enz +
                   sum(c.grain for c in cfgs) / min_request(world.history)) + 2e-8
        if r.get('conc'):
            ok = compare_values(a['v'], b['v'], 2 * max(c.grain for c in cfgs), rel=rel)
        else:
            tol = K * grains(cfgs, world, r['names'], r['fam'], split_unit(r['unit'])[0])
            if r.get('rounded'):
                tol += 1.001 * 10 ** -bw.cfg.precision(r['rounded']) * r.get('wells', 1)
            ok = compare_values(a['v'], b['v'], tol, rel=rel)
        if not ok:
            col.report(f"config={tag}/answer-differs/{r['read']}", {'read': r, 'baseline': a['v'], 'other': b['v']}, case)
            return


def gen_queries(draw, prog, world_subs_n):
    steps = programs.real_steps(prog)
    stages = programs.stages_of(prog)
    keys = sorted(programs.used_keys(prog['steps']) | {s['name'] for s in steps if 'name' in s and s['op'] in ('create_container', 'solution', 'solution_from')})
    qs = []
    if not keys:
        return qs
    for _ in range(draw(st.integers(3, 8))):
        tf = draw(st.sampled_from(sorted(stages.keys())))
        kind = draw(st.sampled_from(['used', 'flows', 'remaining', 'result_volume', 'step_dataframe']))
        if kind == 'used':
            dest = draw(st.one_of(st.just('plates'), st.lists(st.sampled_from(keys), min_size=1, max_size=2, unique=True)))
            qs.append({'q': 'used', 'sub': draw(st.integers(0, world_subs_n - 1)), 'timeframe': tf,
                       'unit': draw(st.sampled_from(['umol', 'nmol', 'mg', 'uL', 'mmol'])), 'dest': dest})
        elif kind == 'flows':
            qs.append({'q': 'flows', 'obj': draw(st.sampled_from(keys)), 'timeframe': tf, 'unit': draw(st.sampled_from(['uL', 'nL', 'mg', 'umol']))})
        elif kind == 'remaining':
            qs.append({'q': 'remaining', 'obj': draw(st.sampled_from(keys)), 'timeframe': tf,
                       'unit': draw(st.sampled_from(['uL', 'mL', 'mg', 'umol'])), 'mode': draw(st.sampled_from(['before', 'after']))})
        elif kind == 'result_volume':
            qs.append({'q': 'result_volume', 'obj': draw(st.sampled_from(keys)), 'unit': draw(st.sampled_from(['uL', 'mL']))})
        elif steps:
            qs.append({'q': 'step_dataframe', 'step': draw(st.integers(0, len(steps) - 1)), 'source': draw(st.sampled_from(['source', 'destination'])),
                       'sub': draw(st.integers(0, world_subs_n - 1)), 'unit': draw(st.sampled_from(['umol', 'mg', 'uL']))})
    return qs


def program_scales(pp, prog):
    """smallest volume (L), non-enzyme amount (mol) and enzyme amount (U) handled anywhere in the eager fold of prog"""
    world = bench.World(pp, subs_json=prog['subs'])
    eager = programs.run_eager(pp, world.real, prog)
    vols, mols, enz = [], [], []
    for snap in eager.snapshots:
        for v in snap.values():
            for _, w in programs.wells_of(v):
                b = world.base(w)
                x = world.ref.size(b, 'L')
                if x > 0:
                    vols.append(x)
                for n, a in b.items():
                    if a > 0:
                        (enz if world.ref.subs[n].enzyme else mols).append(a)
    for s_ in programs.real_steps(prog):
        if isinstance(s_.get('q'), str):
            try:
                v, fam = rparse.quantity(s_['q'])
            except rparse.Unreadable:
                continue
            if fam == 'L' and v > 0:
                vols.append(float(v))
    return (max(min(vols) if vols else 1e-5, 1e-9), max(min(mols) if mols else 1e-7, 1e-12),
            max(min(enz) if enz else 1.0, 1e-9))


def judge_program(col, prog, queries, base, other, bw, ow, case, ref, scales=None):
    tag = ow.name
    if 'crash' in other or 'crash' in base:
        which = other if 'crash' in other else base
        col.report(f"config={tag}/crash:{which.get('crash')}", {'msg': which.get('msg')}, case)
        return
    for key in ('add_exc', 'bake_exc'):
        a = (base.get(key) or '').split(':')[0]
        b = (other.get(key) or '').split(':')[0]
        if {a, b} <= {'ValueError', 'LinAlgError'}:
            continue
        if a != b:
            nst = len(programs.real_steps(prog))
            if (4 * nst + 8) * (bw.cfg.grain + ow.cfg.grain) / min_request(programs.real_steps(prog)) > 0.02:
                col.exclude('a request of a few rounding grains: decisions legitimately differ')
                return
            col.report(f"config={tag}/recipe-decision-differs/{key}", {'baseline': base.get(key), 'other': other.get(key)}, case)
            return
    nsteps = len(programs.real_steps(prog))
    for q, a, b in zip(queries, base['answers'], other['answers']):
        if ('exc' in a) != ('exc' in b) or ('exc' in a and a['exc'] != b['exc']):
            if q['q'] == 'used' and 'ValueError' in (a.get('exc'), b.get('exc')):
                # a net change of (rounded) zero may be reported as 0 or refused, depending on rounding noise
                va, vb = a.get('v', 0), b.get('v', 0)
                if va == 0 and vb == 0:
                    continue
                # ... and a true net change of zero comes out as plus or minus a few storage grains: a refusal under
                # one configuration and a value of a few grains (of the coarser one) under the other are the same answer
                pu_, fam_ = split_unit(q['unit'])
                g_ = sum((4 * nsteps + 8) * c.grain * (1.0 if sp.enzyme else c.mol_mult) * abs(sp.factor(fam_)) / prefix_f(pu_)
                         for c in (bw.cfg, ow.cfg) for sp in ref.subs.values())
                if isinstance(va, (int, float)) and isinstance(vb, (int, float)) and abs(va) <= g_ and abs(vb) <= g_:
                    continue
            col.report(f"config={tag}/tracking-outcome-differs/{q['q']}", {'query': q, 'baseline': a, 'other': b}, case)
            return
        if 'exc' in a:
            continue
        p = bw.cfg.precision(q['unit'])
        # answers are rounded to the display precision of the unit; storage grains are far below it for the
        # generated magnitudes, except when a value sits on a rounding boundary: allow one unit of the last digit
        tol = 1.001 * 10 ** -p
        if q['q'] == 'remaining' or q['q'] == 'result_volume' or q['q'] == 'step_dataframe':
            tol = max(tol, 1e-6)
        # plus K grains of every substance under both configurations, expressed in the answer's unit
        pu, fam = split_unit(q['unit'])
        K = 4 * nsteps + 8
        for c in (bw.cfg, ow.cfg):
            for sp in ref.subs.values():
                tol += K * c.grain * (1.0 if sp.enzyme else c.mol_mult) * abs(sp.factor(fam)) / prefix_f(pu)
            if fam == 'L':
                tol += K * c.grain * c.vol_mult / prefix_f(pu)
        # relative effect of one storage grain on an aliquot ratio, per step (as for direct histories)
        rel = K * 1e-7
        if scales is not None:
            min_vol, min_mol, min_enz = scales
            gvol = sum(c.grain * c.vol_mult + sum(c.grain * (1.0 if sp.enzyme else c.mol_mult) * abs(sp.factor('L'))
                                                  for sp in ref.subs.values()) for c in (bw.cfg, ow.cfg))
            rel += K * (gvol / min_vol + sum(c.grain * c.mol_mult for c in (bw.cfg, ow.cfg)) / min_mol +
                        sum(c.grain for c in (bw.cfg, ow.cfg)) / min_enz +
                        sum(c.grain for c in (bw.cfg, ow.cfg)) / min_request(programs.real_steps(prog)))
        if not compare_values(a['v'], b['v'], tol, rel=rel):
            col.report(f"config={tag}/tracking-answer-differs/{q['q']}", {'query': q, 'baseline': a['v'], 'other': b['v']}, case)
            return


def run(col):
    pp = core.env.bootstrap()
    cfg = RefCfg()
    # workers of this shard: baseline + a rotating pair of configurations (+ density variants in thorough)
    mine = [CONFIGS[(2 * col.shard + j) % len(CONFIGS)] for j in range(2)]
    density = col.tier == 'thorough' and col.shard % 2 == 1
    base_over = dict(DENSITY) if density else None
    if density:
        col.label('density-variant')
    workers = []
    try:
        bw = Worker('baseline' + ('+density' if density else ''), base_over)
        workers.append(bw)
        others = []
        for name, ov in mine:
            o = dict(ov)
            if density:
                o.update(DENSITY)
            w = Worker(name + ('+density' if density else ''), o)
            workers.append(w)
            others.append(w)

        def t_hist():
            @given(st.data())
            def test(data):
                core.env.clear_caches()
                world, reads = gen_history(data.draw, pp, cfg)
                col.case()
                col.label('script:history')
                script = {'kind': 'history', 'subs': [s.to_json() for s in world.subs], 'ops': world.history, 'reads': reads}
                base = bw.ask(script)
                kinds = sorted({op['op'] for op in world.history})
                for ow in others:
                    case = {'config': ow.overrides, 'baseline_config': bw.overrides, 'script': script}
                    judge_history(col, world, reads, base, ow.ask(script), bw, ow, case)
                    fams = {op['q'].split(' ')[1][-1] for op in world.history if 'q' in op and op['q']}
                    if len(world.history) >= 3 and len(fams) >= 2:
                        col.nontrivial_key(f"{ow.name}|{'+'.join(kinds)}")
                col.sample(lambda: {'ops': world.history[-4:], 'reads': len(reads), 'configs': [w.name for w in others]})
            return test
        core.run_property(col, t_hist, budget(40, 600, col.tier), tag='history')

        def t_prog():
            @given(st.data())
            def test(data):
                core.env.clear_caches()
                prof = {'max_steps': 8, 'max_dim': 2, 'keep_failing': True, 'safe_margins': True, 'min_log_uL': 1.5,
                        'dilute_new_name': False, 'q_modes': ['frac'] * 9 + ['over'],
                        'fill_modes': ['fit'] * 8 + ['below', 'over'], 'dilute_modes': ['lower'] * 9 + ['higher']}
                prog = programs.gen_program(data.draw, pp, cfg, prof)
                queries = gen_queries(data.draw, prog, len(prog['subs']))
                col.case()
                col.label('script:program')
                script = {'kind': 'program', 'prog': prog, 'queries': queries}
                base = bw.ask(script)
                kinds = sorted({s['op'] for s in prog['steps']})
                scales = program_scales(pp, prog)
                for ow in others:
                    case = {'config': ow.overrides, 'baseline_config': bw.overrides, 'script': script}
                    judge_program(col, prog, queries, base, ow.ask(script), bw, ow, case,
                                  bench.World(pp, subs_json=prog['subs']).ref, scales)
                    if len(prog['steps']) >= 3:
                        col.nontrivial_key(f"prog|{ow.name}|{'+'.join(kinds)}")
            return test
        core.run_property(col, t_prog, budget(30, 500, col.tier), tag='program')
    finally:
        for w in workers:
            w.close()


def replay(col, case):
    """case: {'config': overrides, 'baseline_config': overrides|None, 'script': ...}; runs both workers afresh"""
    core.env.bootstrap()
    bw = Worker('baseline', case.get('baseline_config'))
    ow = Worker('replayed', case['config'])
    try:
        script = case['script']
        base, other = bw.ask(script), ow.ask(script)
        if script['kind'] == 'history':
            # rebuild the world views in this process for the tolerance calculus (same ops, baseline semantics)
            pp = core.env.bootstrap()
            world = bench.World(pp, subs_json=script['subs'])
            for op in script['ops']:
                try:
                    bench.execute(world, op)
                except IndexError:
                    break
            judge_history(col, world, script['reads'], base, other, bw, ow, case)
        else:
            pp = core.env.bootstrap()
            judge_program(col, script['prog'], script['queries'], base, other, bw, ow, case,
                          bench.World(pp, subs_json=script['prog']['subs']).ref, program_scales(pp, script['prog']))
    finally:
        bw.close()
        ow.close()
