"""C12 create_solution_from dilutes a stock as requested and conserves material.  Dedicated @given search;
oracle = refchem 2x2 solve (fraction of stock, amount of solvent) + ledger."""
import math

import numpy
from hypothesis import given, strategies as st

from harness import core
from harness.core import budget
from engines import bench
from gen import basic
from gen.basic import render_q, PREFIX_POOL
from refchem import parse as rparse
from refchem.model import Ref, RefCfg

ID = 'C12'
SHARDS = {'quick': 8, 'thorough': 16}
RULE = ("@given: stock = container with a non-enzyme solute, a liquid and 0-2 further components (solids, "
        "liquids, bystander enzymes) in exact-decimal amounts, optionally capacity-limited; solvent = pure "
        "substance != solute (liquid, sometimes dense, sometimes solid) or a container (pure or already holding "
        "some solute); target = stock concentration x factor in (0,1.5] in any spelling / unit pair; quantity in "
        "L / g / mol = fraction in (0,1.5] of what the stock can supply. Reference: 2x2 solve for (fraction phi of "
        "stock, solvent amount y). Returned: solution size in the requested unit == quantity, refchem "
        "concentration == target, solution == phi*stock + solvent part (uniform aliquots), residual stock == "
        "(1-phi)*stock, residual solvent container likewise, ledger residuals + solution == inputs + pure solvent "
        "added with only the solvent key exceeding the inputs. Unreachable target / over-demand => ValueError (any "
        "other exception type is a violation). non-trivial = mass- or mole-based concentration or quantity, dense "
        "solvent (rho>=1.3), container solvent, or >=3 components; distinct by (num, den, quantity unit, solvent "
        "form, outcome)")
ASSUMPTIONS = ["concentration = solute amount / size of the whole mixture in the denominator unit",
               "enzyme solutes are not generated (unsupported by the library)",
               "targets within 1e-6 relative of a feasibility boundary are don't-care"]
def shard_config(shard, tier):
    """two of eight shards run under storage units whose prefixes differ from each other (documented settings)"""
    return {6: {'volume_storage_unit': 'mL'}, 7: {'moles_storage_unit': 'nmol'}}.get(shard % 8)


REQUIRED_CLASSES = {'quick': ['solvent:substance', 'solvent:container', 'outcome:returned', 'outcome:ValueError',
                              'qfam:L', 'qfam:g', 'qfam:mol'],
                    'thorough': ['solvent:substance', 'solvent:container', 'outcome:returned', 'outcome:ValueError',
                                 'qfam:L', 'qfam:g', 'qfam:mol', 'stock:enzyme']}


def base_from_contents(world, contents):
    b = {}
    for i, q in contents:
        sub = world.subs[i]
        v, fam = rparse.quantity(q)
        b[sub.name] = b.get(sub.name, 0.0) + float(v) / sub.factor(fam)
    return b


def run_case(col, pp, cfg, case):
    core.env.clear_caches()
    col.case()
    world = bench.World(pp, subs_json=case['subs'])
    ref, R = world.ref, world.real
    solute = world.subs[case['solute']]
    members = case['stock']
    stock = None
    later = [m for m in members if m[0] != case['solute']][-1:] if case.get('aged') and len(members) > 1 else []
    if later:
        # the same stock reached through a history: without its last member it is diluted once (throw-away), then the
        # last member is poured into what is left.  What the call does with a stock depends on what it holds now (the
        # reference reads the final contents), not on how it got there.
        try:
            stock = pp.Container('stock', case.get('cap') or 'inf L', [(R[i], q) for i, q in members if [i, q] != later[0]])
            b0 = world.base(bench.view_container(stock))
            other = next(i for i, s_ in enumerate(world.subs) if s_.kind == 'liquid' and i != case['solute'])
            try:
                stock = pp.Container.create_solution_from(stock, R[case['solute']], f"{ref.conc(b0, solute.name, 'mol', 'g') / 2:.6g} mol/g",
                                                          R[other], f"{ref.size(b0, 'g') * 0.01:.6g} g", 'prime')[0]
                col.label('stock:diluted-once-before')
            except Exception:  # noqa  (the priming call is not judged here)
                pass
            stock = pp.Container.transfer(pp.Container('more', initial_contents=[(R[later[0][0]], later[0][1])]), stock, later[0][1])[1]
        except Exception:  # noqa
            stock = None
    if stock is None:
        stock = pp.Container('stock', case.get('cap') or 'inf L', [(R[i], q) for i, q in members])
    sview = bench.view_container(stock)
    sbase = world.base(sview)
    container_solvent = 'c' in case['solvent']
    col.label(f"solvent:{'container' if container_solvent else 'substance'}")
    if container_solvent:
        solv = pp.Container('diluent', initial_contents=[(R[i], q) for i, q in case['solvent']['c']])
        vbase = world.base(bench.view_container(solv))
        solvent_arg = solv

        def sfac(fam):
            return ref.size(vbase, fam)
        s_solute = lambda num: vbase.get(solute.name, 0.0) * solute.factor(num)
    else:
        ssub = world.subs[case['solvent']['s']]
        solvent_arg = R[case['solvent']['s']]
        vbase = None
        sfac = ssub.factor
        s_solute = lambda num: 0.0
    try:
        exact, num, den = rparse.concentration(case['conc'], cfg.wv)
        qexact, qfam = rparse.quantity(case['q'])
    except rparse.Unreadable:
        col.exclude('unreadable')
        return
    c = round(float(exact), cfg.P)
    Q = float(qexact)
    col.label(f"qfam:{qfam}")
    if case.get('trace'):
        col.label('stock:micromolar')
    if any(ref.subs[n].enzyme for n in sbase):
        col.label('stock:enzyme')
    # reference 2x2: unknowns phi (fraction of stock), y (solvent amount: base units or fraction of container)
    N_s, D_s = sbase.get(solute.name, 0.0) * solute.factor(num), ref.size(sbase, den)
    A = numpy.array([[ref.size(sbase, qfam), sfac(qfam)],
                     [N_s - c * D_s, s_solute(num) - c * sfac(den)]], dtype=float)
    b = numpy.array([Q, 0.0])
    verdict = 'dontcare'
    phi = y = None
    try:
        scale = numpy.abs(A).max(axis=1)
        if (scale > 0).all() and numpy.linalg.cond(A / scale[:, None]) < 1e8:
            phi, y = numpy.linalg.solve(A, b)
            band = 1e-6
            if phi > band and y > -band * 0 and phi < 1 - band and y > band * abs(Q / max(sfac(qfam), 1e-300)) \
                    and (not container_solvent or y < 1 - band):
                verdict = 'accept'
            elif phi < -band or phi > 1 + band or (container_solvent and y > 1 + band) or \
                    y < -band * abs(Q / max(sfac(qfam), 1e-300)):
                verdict = 'refuse'
        else:
            col.exclude('reference ill-conditioned')
    except numpy.linalg.LinAlgError:
        col.exclude('reference singular')
    # capacity of the new solution: Recipe gives it the stock's capacity; the direct call creates an unbounded one
    col.label(f"verdict:{verdict}")
    pre = bench.view([stock, solvent_arg], pp)
    try:
        res = pp.Container.create_solution_from(stock, R[case['solute']], case['conc'], solvent_arg, case['q'], 'diluted')
        exc = None
    except Exception as e:  # noqa
        res, exc = None, e
    col.label(f"outcome:{'returned' if exc is None else type(exc).__name__}")
    if bench.view([stock, solvent_arg], pp) != pre:
        col.report('create_solution_from/argument-mutated', {}, case)
    form = 'container' if container_solvent else 'substance'
    tail = f"{num}-per-{den}/q={qfam}/{form}-solvent"
    if exc is not None:
        if not isinstance(exc, ValueError):
            col.report(f"create_solution_from/raised:{type(exc).__name__}/q={qfam}", {'exc': repr(exc)[:160]}, case)
        elif verdict == 'accept':
            col.report(f"create_solution_from/feasible-refused/{tail}", {'exc': str(exc)[:100], 'phi': float(phi), 'y': float(y)}, case)
        self_key = f"{num}|{den}|{qfam}|{form}|{type(exc).__name__}"
        if verdict != 'dontcare':
            col.nontrivial_key(self_key)
        return
    if verdict == 'refuse':
        col.report(f"create_solution_from/infeasible-returned/{tail}", {'phi': float(phi), 'y': float(y)}, case)
        return
    residual = bench.view_container(res[0])
    solution = bench.view_container(res[-1])
    rbase, obase = world.base(residual), world.base(solution)
    names = set(sbase) | set(obase) | (set(vbase) if vbase else set())
    gsum = sum(ref.grain_base(n) / a for n, a in obase.items() if a > 0)
    # substances of the stock whose share of the aliquot is near or below one storage grain arrive as 0 or 1 grain:
    # one grain of each, weighted by its share of the stock's volume / mass / moles
    stock_part = max((sbase[n] - rbase.get(n, 0.0)) / sbase[n] for n in sbase if sbase[n] > 0) if sbase else 0.0
    for n in sbase:
        exp_n = stock_part * sbase[n]
        if sbase[n] > 0 and exp_n < 1e4 * ref.grain_base(n):
            share = max(sbase[n] * ref.subs[n].factor(f) / ref.size(sbase, f) for f in ('L', 'g', 'mol') if ref.size(sbase, f) > 0)
            gsum += share * ref.grain_base(n) / max(exp_n, ref.grain_base(n) * 1e-3)
            col.label('aliquot-of-some-substance-near-one-grain')
    svol = ref.size(sbase, 'L')
    ovol = ref.size(obase, 'L')
    # the aliquots are measured out by volume, rounded to one grain of the volume storage unit: relative to the
    # smallest volume handled (the new solution, or the part of it taken from the stock)
    small = max(min(ovol, svol - ref.size(rbase, 'L') if svol > ref.size(rbase, 'L') else ovol), 1e-300)
    if container_solvent:
        # ... or the part drawn from the solvent container (a few nL of a dense solvent weigh as much as the rest)
        vpart = ref.size(vbase, 'L') - ref.size(world.base(bench.view_container(res[1])), 'L')
        if vpart > 0:
            small = min(small, vpart)
    tol = 8 * gsum + 1e-8 + 4 * cfg.grain * cfg.vol_mult / max(svol, 1e-300) + 4 * cfg.grain * cfg.vol_mult / small
    # (1) size and concentration of the new solution
    got_q = ref.size(obase, qfam)
    if abs(got_q - Q) > tol * Q:
        col.report(f"create_solution_from/quantity-not-met/{tail}", {'target': Q, 'got': got_q}, case)
    got_c = ref.conc(obase, solute.name, num, den)
    # the solute arrives as an aliquot rounded to one storage grain: relative to the amount the target denotes (a
    # product holding a few grains of solute, or less than one, cannot meet a concentration more finely than that)
    exp_solute = c * ref.size(obase, den) / solute.factor(num) if solute.factor(num) > 0 else 0.0
    tol_c = tol + 2 * ref.grain_base(solute.name) / max(exp_solute, 1e-300)
    if exp_solute < 1e4 * ref.grain_base(solute.name):
        col.label('product-holds-under-1e4-grains-of-solute')
    if abs(got_c - c) > (tol_c + 1.01 * cfg.grain / c) * c:
        col.report(f"create_solution_from/concentration-not-met/{tail}", {'target': c, 'got': got_c,
                                                                       'stock': ref.conc(sbase, solute.name, num, den)}, case)
    # (2) aliquots and ledger
    taken = {n: sbase.get(n, 0.0) - rbase.get(n, 0.0) for n in sbase}
    # common fraction: substances weighted by the number of storage grains they hold
    wts = {n: sbase[n] / ref.grain_base(n) for n in sbase if sbase[n] > 0}
    f_mean = sum(wts[n] * taken[n] / sbase[n] for n in wts) / sum(wts.values()) if wts else 0.0
    for n in sbase:
        if abs(taken[n] - f_mean * sbase[n]) > 4 * ref.grain_base(n) + 1e-7 * sbase[n]:
            col.report(f"create_solution_from/stock-part-not-uniform-aliquot/{form}-solvent",
                       {'substance': n, 'mean_fraction': f_mean, 'fraction': taken[n] / sbase[n] if sbase[n] else None}, case)
    if container_solvent:
        vres = world.base(bench.view_container(res[1]))
        vtaken = {n: vbase.get(n, 0.0) - vres.get(n, 0.0) for n in vbase}
        wts2 = {n: vbase[n] / ref.grain_base(n) for n in vbase if vbase[n] > 0}
        m2 = sum(wts2[n] * vtaken[n] / vbase[n] for n in wts2) / sum(wts2.values()) if wts2 else 0.0
        for n in vbase:
            if abs(vtaken[n] - m2 * vbase[n]) > 4 * ref.grain_base(n) + 1e-7 * vbase[n]:
                col.report("create_solution_from/solvent-part-not-uniform-aliquot", {'substance': n}, case)
        for n in names:
            total_in = sbase.get(n, 0.0) + vbase.get(n, 0.0)
            total_out = rbase.get(n, 0.0) + vres.get(n, 0.0) + obase.get(n, 0.0)
            if abs(total_in - total_out) > 8 * ref.grain_base(n) + 1e-12 * total_in:
                col.report("create_solution_from/not-conserved/container-solvent",
                           {'substance': n, 'in': total_in, 'out': total_out}, case)
    else:
        for n in names:
            total_in = sbase.get(n, 0.0)
            total_out = rbase.get(n, 0.0) + obase.get(n, 0.0)
            if n == ssub.name:
                if total_out < total_in - 8 * ref.grain_base(n):
                    col.report("create_solution_from/solvent-lost", {'substance': n, 'in': total_in, 'out': total_out}, case)
            elif abs(total_in - total_out) > 8 * ref.grain_base(n) + 1e-12 * total_in:
                col.report(f"create_solution_from/not-conserved/{ref.subs[n].kind}",
                           {'substance': n, 'in': total_in, 'out': total_out}, case)
    dense = (not container_solvent) and ssub.kind == 'liquid' and ssub.density >= 1.3
    if (num, den) != ('mol', 'L') or qfam != 'L' or dense or container_solvent or len(sbase) >= 3:
        col.nontrivial_key(f"{num}|{den}|{qfam}|{form}|{'dense' if dense else ''}|{len(sbase)}|returned")
        col.sample(lambda: {k: case[k] for k in ('stock', 'solute', 'conc', 'solvent', 'q')})


@st.composite
def cases(draw, cfg):
    subs = draw(basic.substance_pool(cfg, max_extra=2))
    ref = Ref(cfg, subs)
    idx = list(range(len(subs)))
    non_enz = [i for i in idx if not subs[i].enzyme]
    solute = draw(st.sampled_from(non_enz))
    liquids = [i for i in idx if subs[i].kind == 'liquid' and i != solute]
    stock_liquid = draw(st.sampled_from(liquids))
    extras = draw(st.lists(st.sampled_from([i for i in idx if i not in (solute, stock_liquid)]), max_size=2, unique=True))
    vtot = 10 ** draw(st.floats(-4, -1.5))
    stock = []
    members = [(stock_liquid, 1.0), (solute, draw(st.floats(0.01, 0.3)))] + [(i, draw(st.floats(0.005, 0.2))) for i in extras]
    base = {}
    # one stock in six is dilute: a micromolar solute (1e-6.5 .. 1e-4 mol/L), the everyday concentration of a
    # biochemical working stock, where absolute tolerances written for molar magnitudes start to bite
    trace = 10 ** draw(st.floats(-6.5, -4)) if draw(st.integers(0, 5)) == 0 else None
    for i, share in members:
        sub = subs[i]
        fam = draw(st.sampled_from(['U', 'g'] if sub.enzyme else ['L', 'g', 'mol']))
        if trace is not None and i == solute:
            amt = trace * vtot
            fam = draw(st.sampled_from(['g', 'mol']))
        elif sub.factor('L') > 0:
            amt = share * vtot / sub.factor('L')
            if sub.enzyme:
                amt = min(amt, 2.0)
        else:
            amt = share * vtot * 1000 / sub.factor('g')
        q = render_q(amt * sub.factor(fam), fam, draw(st.sampled_from(PREFIX_POOL)), 0, 6)
        stock.append([i, q.text])
        base[sub.name] = base.get(sub.name, 0.0) + float(q.value) / sub.factor(fam)
    # solvent
    solvent_subs = [i for i in non_enz if i != solute]
    if draw(st.integers(0, 2)) == 0:
        sl = draw(st.sampled_from(liquids))
        cvol = vtot * draw(st.floats(0.5, 20))
        cont = [[sl, render_q(cvol, 'L', draw(st.sampled_from(PREFIX_POOL)), 0, 6).text]]
        if draw(st.booleans()):
            # the solvent container may already hold some solute (less concentrated than the stock)
            ssub = subs[solute]
            amt = base[ssub.name] / vtot * cvol * draw(st.floats(0.01, 0.4))
            fam = draw(st.sampled_from(['g', 'mol']))
            cont.append([solute, render_q(amt * ssub.factor(fam), fam, draw(st.sampled_from(['', 'm', 'u'])), 0, 6).text])
        solvent = {'c': cont}
    else:
        solvent = {'s': draw(st.sampled_from(liquids if draw(st.integers(0, 5)) else solvent_subs))}
    num = draw(st.sampled_from(['mol', 'mol', 'g', 'L']))
    den = draw(st.sampled_from(['L', 'L', 'g', 'mol']))
    if trace is not None and draw(st.integers(0, 4)):
        num, den = draw(st.sampled_from(['mol', 'mol', 'g'])), 'L'
    cur = ref.conc(base, subs[solute].name, num, den)
    f = draw(st.floats(0.03, 0.97)) if draw(st.integers(0, 6)) else draw(st.floats(1.03, 1.5))
    conc = draw(basic.conc_spelling(cur * f, num, den, cfg.wv))
    qfam = draw(st.sampled_from(['L', 'L', 'g', 'mol']))
    supply = ref.size(base, qfam) / max(f, 1e-9)
    frac = draw(st.floats(0.02, 0.95)) if draw(st.integers(0, 6)) else draw(st.floats(1.05, 1.6))
    if draw(st.integers(0, 5)) == 0:
        frac = 10 ** draw(st.floats(-6, -2))          # a request that is tiny compared with the stock
    q = render_q(supply * frac, qfam, draw(st.sampled_from(PREFIX_POOL)), draw(st.integers(0, 2)), 6)
    out = {'subs': [s.to_json() for s in subs], 'stock': stock, 'solute': solute, 'solvent': solvent,
           'conc': conc.text, 'q': q.text}
    if len(stock) > 1 and draw(st.integers(0, 2)) == 0:
        out['aged'] = True
    if trace is not None:
        out['trace'] = True
    return out


def run(col):
    pp = core.env.bootstrap()
    cfg = RefCfg()

    def t():
        @given(cases(cfg))
        def test(case):
            run_case(col, pp, cfg, case)
        return test
    core.run_property(col, t, budget(500, 12000, col.tier), tag='create_solution_from')


def replay(col, case):
    pp = core.env.bootstrap()
    run_case(col, pp, RefCfg(), case)
