"""Worker of the cross-configuration engine (E5): one process per pyplate.yaml, executes scripts sent as JSON
lines on stdin (bench histories or recipe programs with queries) and answers with JSON lines on stdout.
PYPLATE_CONFIG / VERIF_REPO are set by the parent before the process starts."""
import json
import os
import sys
import traceback

HERE = os.path.dirname(os.path.dirname(os.path.abspath(__file__)))
sys.path.insert(0, HERE)


def finite(x):
    try:
        import numpy
        if isinstance(x, numpy.ndarray):
            return [finite(v) for v in x.tolist()]
        if isinstance(x, numpy.generic):
            x = x.item()
    except Exception:
        pass
    if isinstance(x, list):
        return [finite(v) for v in x]
    if isinstance(x, float) and (x != x or x in (float('inf'), float('-inf'))):
        return repr(x)
    return x


def reads_of(pp, world, reads):
    out = []
    for r in reads:
        try:
            obj = world.pool[r['i']].obj
            k = r['read']
            if k == 'get_volume':
                v = obj.get_volume(r['unit'])
            elif k == 'volume_attr':
                v = pp.Unit.convert_from_storage(obj.volume, r['unit'])
            elif k == 'max_volume':
                v = pp.Unit.convert_from_storage(obj.max_volume, r['unit'])
            elif k == 'amount':
                s = world.real[r['sub']]
                a = obj.contents.get(s, 0.0)
                v = a if s.is_enzyme() else pp.Unit.convert_from_storage(a, r['unit'])
            elif k == 'amount_as':
                s = world.real[r['sub']]
                v = pp.Unit.convert_from(s, obj.contents.get(s, 0.0), 'U' if s.is_enzyme() else pp.config.moles_storage_unit, r['unit'])
            elif k == 'get_concentration':
                v = obj.get_concentration(world.real[r['sub']], r['unit'])
            elif k == 'get_volumes':
                v = obj.get_volumes(unit=r['unit'])
            elif k == 'get_volumes_sub':
                v = obj.get_volumes(world.real[r['sub']], r['unit'])
            elif k == 'get_moles':
                v = obj.get_moles(world.real[r['sub']], r['unit'])
            elif k == 'plate_get_volume':
                v = obj.get_volume(r['unit'])
            elif k == 'instructions':
                v = obj.instructions
            else:
                v = 'unknown read'
            out.append({'v': finite(v)})
        except Exception as e:  # noqa
            out.append({'exc': type(e).__name__, 'msg': str(e)[:120]})
    return out


def main():
    from harness import env
    pp = env.bootstrap(os.environ['PYPLATE_CONFIG'])
    from engines import bench, programs
    sys.stdout.write(json.dumps({'ready': True, 'storage': [pp.config.moles_storage_unit, pp.config.volume_storage_unit]}) + '\n')
    sys.stdout.flush()
    for line in sys.stdin:
        line = line.strip()
        if not line:
            continue
        try:
            script = json.loads(line)
            env.clear_caches()
            if script['kind'] == 'history':
                world = bench.World(pp, subs_json=script['subs'])
                outcomes = []
                for op in script['ops']:
                    try:
                        out = bench.execute(world, op)
                        outcomes.append('ok' if out.ok else type(out.exc).__name__)
                        if not out.ok:
                            outcomes[-1] += ':' + str(out.exc)[:80]
                    except IndexError:
                        outcomes.append('unreachable')
                        break
                res = {'outcomes': outcomes, 'reads': reads_of(pp, world, script['reads']) if 'unreachable' not in outcomes else []}
            elif script['kind'] == 'program':
                world = bench.World(pp, subs_json=script['prog']['subs'])
                rr = programs.run_recipe(pp, world.real, script['prog'])
                res = {'add_exc': type(rr.add_exc[1]).__name__ if rr.add_exc else None,
                       'bake_exc': (type(rr.bake_exc).__name__ + ':' + str(rr.bake_exc)[:80]) if rr.bake_exc else None, 'answers': []}
                if rr.results is not None:
                    for q in script['queries']:
                        try:
                            if q['q'] == 'used':
                                dest = 'plates' if q['dest'] == 'plates' else [rr.decl[k] for k in q['dest']]
                                v = rr.recipe.get_substance_used(world.real[q['sub']], q['timeframe'], q['unit'], dest)
                            elif q['q'] == 'flows':
                                f = rr.recipe.get_container_flows(rr.decl[q['obj']], q['timeframe'], q['unit'])
                                v = {k: finite(x) for k, x in f.items()}
                            elif q['q'] == 'remaining':
                                v = rr.recipe.get_amount_remaining(rr.decl[q['obj']], q['timeframe'], q['unit'], q['mode'])
                            elif q['q'] == 'result_volume':
                                o = rr.results[q['obj']]
                                v = o.get_volume(q['unit']) if isinstance(o, pp.Container) else o.get_volumes(unit=q['unit'])
                            elif q['q'] == 'step_dataframe':
                                st_ = rr.recipe.steps[q['step']]
                                v = st_.dataframe(data_source=q['source'], substance=world.real[q['sub']], unit=q['unit']).values.tolist()
                            res['answers'].append({'v': finite(v)})
                        except Exception as e:  # noqa
                            res['answers'].append({'exc': type(e).__name__, 'msg': str(e)[:120]})
            else:
                res = {'error': 'unknown script kind'}
        except Exception as e:  # noqa
            res = {'crash': type(e).__name__, 'msg': str(e)[:200], 'tb': traceback.format_exc()[-600:]}
        sys.stdout.write(json.dumps(res) + '\n')
        sys.stdout.flush()


if __name__ == '__main__':
    try:
        main()
    except Exception as e:  # noqa  (e.g. the library cannot even be imported under this configuration)
        sys.stdout.write(json.dumps({'ready': False, 'crash': type(e).__name__, 'msg': str(e)[:300]}) + '\n')
        sys.stdout.flush()
