"""C14 Quantity and concentration strings mean what SI says.  Engine E3: grammar-complete enumeration x Hypothesis
values, equivalent-spelling families, API-level interchangeability, malformed-string mutations (+ optional atheris)."""
import itertools
import math
import os
from fractions import Fraction

from hypothesis import given, strategies as st

from harness import core
from harness.core import budget
from gen import basic
from gen.basic import dec_text, _frac_to_decstr
from refchem import parse as rparse
from refchem.model import PREFIXES, PREFIX_LIST, RefCfg, Sub, fill_defaults

ID = 'C14'
SHARDS = {'quick': 8, 'thorough': 16}
RULE = ("(a) grammar-complete: every prefix x base unit for quantities; every (numerator prefix x unit) x (denominator "
        "prefix x unit) with and without a denominator value, every prefix x {M, m}, the three % forms — each with "
        "Hypothesis-drawn exact-decimal values in three number spellings; oracle = own reference reader (exact "
        "Fractions): parsed value == v x SI factor within half an internal-precision grain (+1e-12 relative), units as "
        "expected. (b) equivalent-spelling families built from one exact rational ('1 M', '1 mol/L', '1 mmol/mL', "
        "'0.01 mmol/10 uL', '1000 mM', % vs ratio, m vs mol/kg ...) must parse equal within one grain. (c) API level: "
        "containers, plates, transfers, fills and solutions built from two spellings of one quantity / concentration "
        "/ capacity are equal; capacities given in a non-volume unit are rejected. (d) malformed strings (mutations of "
        "valid strings: delete / insert / duplicate / swap characters or tokens, missing or doubled space, unknown "
        "prefix or unit, two slashes, empty parts, zero denominator) must raise, or — if a lenient reading exists "
        "(extra blanks, Python float spellings) — raise or give exactly that reading. non-trivial = non-empty prefix "
        "on some part, a denominator value, or a % / m / M form; distinct by (form, prefixes, units)")
ASSUMPTIONS = ["documented grammar: docs/users_guide/units_and_concentrations.rst + parse_* docstrings",
               "values whose base-unit ratio is below the internal rounding grain are 'rounded to internal precision'",
               "any exception type counts as 'rejected' for malformed strings"]
def shard_config(shard, tier):
    """two of eight shards run with storage units whose prefixes differ from each other and from the shipped ones (a
    documented setting; what a string denotes does not depend on it)"""
    return {5: {'moles_storage_unit': 'mmol'}, 6: {'volume_storage_unit': 'mL', 'moles_storage_unit': 'umol'},
            3: {'default_weight_volume_units': 'g/L'}}.get(shard % 8)      # %w/v means parts per hundred of THIS unit


REQUIRED_CLASSES = {'quick': ['q:valid', 'c:ratio', 'c:ratiow', 'c:M', 'c:m', 'c:pct', 'family', 'api', 'malformed:q',
                              'malformed:c'],
                    'thorough': ['q:valid', 'c:ratio', 'c:ratiow', 'c:M', 'c:m', 'c:pct', 'family', 'api',
                                 'malformed:q', 'malformed:c', 'capacity-unit']}

BASES = ['g', 'L', 'mol']


@st.composite
def dec_value(draw, lo=-6, hi=6):
    m = draw(st.integers(1, 99999))
    e = draw(st.integers(lo, hi))
    frac = Fraction(m) * Fraction(10) ** e
    return frac, dec_text(_frac_to_decstr(frac), draw(st.integers(0, 4)))


def close_parse(cfg, got, exact):
    x = float(exact)
    return abs(got - x) <= 0.51 * cfg.grain + 1e-12 * abs(x)


def check_quantity(col, pp, cfg, text, exact, fam, key):
    col.case()
    col.label('q:valid')
    case = {'quantity': text}
    try:
        v, u = pp.Unit.parse_quantity(text)
    except Exception as e:  # noqa
        col.report(f"parse_quantity/valid-rejected/{fam}", {'text': text, 'exc': repr(e)[:100]}, case)
        return
    again = [pp.Unit.parse_quantity(text) for _ in range(2)]
    if any(r != (v, u) for r in again):
        col.report('parse_quantity/result-changes-when-parsed-again', {'text': text, 'results': [[v, u]] + [list(r) for r in again]}, case)
    if u != fam:
        col.report(f"parse_quantity/wrong-unit/{fam}", {'text': text, 'got': u}, case)
    elif abs(v - float(exact)) > 1e-12 * abs(float(exact)):
        col.report(f"parse_quantity/wrong-value/{key}", {'text': text, 'got': v, 'expected': float(exact)}, case)
    col.nontrivial_key('q|' + key)


def check_concentration(col, pp, cfg, text, exact, num, den, form, key):
    col.case()
    col.label(f"c:{form}")
    case = {'concentration': text}
    try:
        v, n, d = pp.Unit.parse_concentration(text)
    except Exception as e:  # noqa
        col.report(f"parse_concentration/valid-rejected/{form}", {'text': text, 'exc': repr(e)[:100]}, case)
        return None
    again = [pp.Unit.parse_concentration(text) for _ in range(2)]
    if any(r != (v, n, d) for r in again):
        # the meaning of a string must not depend on what was parsed before
        col.report(f"parse_concentration/result-changes-when-parsed-again/{form}",
                   {'text': text, 'results': [[v, n, d]] + [list(r) for r in again]}, case)
    if (n, d) != (num, den):
        col.report(f"parse_concentration/wrong-units/{form}", {'text': text, 'got': [n, d], 'expected': [num, den]}, case)
    elif not close_parse(cfg, v, exact):
        col.report(f"parse_concentration/wrong-value/{form}/{key}", {'text': text, 'got': v, 'expected': float(exact)}, case)
    col.nontrivial_key('c|' + key)
    return v


# ------------------------------------------------------------------------------------------------ (b) families

def family(cfg, x, num, den, draw):
    """several spellings of one exact base ratio x (Fraction, P-exact)"""
    out = []

    def txt(v):
        return dec_text(_frac_to_decstr(v), draw(st.integers(0, 4)))
    for _ in range(4):
        pn = '' if num == 'U' else draw(st.sampled_from(PREFIX_LIST))
        pd = draw(st.sampled_from(PREFIX_LIST))
        if draw(st.booleans()):
            w = Fraction(draw(st.sampled_from(['10', '2', '0.5', '100', '2.5', '1e3', '4', '0.125'])))
            out.append(f"{txt(x * w * PREFIXES[pd] / PREFIXES[pn])} {pn}{num}/{txt(w)} {pd}{den}")
        else:
            out.append(f"{txt(x * PREFIXES[pd] / PREFIXES[pn])} {pn}{num}/{pd}{den}")
    if (num, den) == ('mol', 'L'):
        for p in draw(st.lists(st.sampled_from(PREFIX_LIST), min_size=1, max_size=2)):
            out.append(f"{txt(x / PREFIXES[p])} {p}M")
    if (num, den) == ('mol', 'g'):
        for p in draw(st.lists(st.sampled_from(PREFIX_LIST), min_size=1, max_size=2)):
            out.append(f"{txt(x * 1000 / PREFIXES[p])} {p}m")
        out.append(f"{txt(x * 1000)} mol/kg")
    if (num, den) == ('g', 'g'):
        out.append(f"{txt(x * 100)} %w/w")
    if (num, den) == ('L', 'L'):
        out.append(f"{txt(x * 100)} %v/v")
    a, b = cfg.wv.split('/')
    (ma, fa), (mb, fb) = rparse.unit_ref(a), rparse.unit_ref(b)
    if (num, den) == (fa, fb):
        out.append(f"{txt(x * 100 * mb / ma)} %w/v")
    return out


def check_family(col, pp, cfg, spellings, x, num, den):
    col.case()
    col.label('family')
    vals = []
    for s in spellings:
        try:
            v, n, d = pp.Unit.parse_concentration(s)
        except Exception as e:  # noqa
            col.report('family/spelling-rejected', {'text': s, 'exc': repr(e)[:100]}, {'family': spellings, 'x': str(x), 'num': num, 'den': den})
            return
        vals.append((v, n, d))
    for (v, n, d), s in zip(vals, spellings):
        if (n, d) != (num, den) or abs(v - float(x)) > 1.01 * cfg.grain + 1e-12 * float(x):
            col.report('family/spellings-disagree', {'spellings': spellings, 'values': [list(t) for t in vals],
                                                     'expected': float(x)},
                       {'family': spellings, 'x': str(x), 'num': num, 'den': den})
            break
    col.nontrivial_key(f"fam|{num}|{den}|{len(spellings)}|{spellings[0].split(' ')[1]}")
    col.sample({'family': spellings})


# ------------------------------------------------------------------------------------------------ (c) API level

def views_equal(pp, a, b, grain):
    from engines import bench
    va, vb = bench.view(a, pp), bench.view(b, pp)

    def eq(x, y):
        if x['cap'] != y['cap'] and not math.isclose(x['cap'], y['cap'], rel_tol=1e-12):
            return False
        if abs(x['vol'] - y['vol']) > 4 * grain + 1e-12 * abs(x['vol']):
            return False
        cx, cy = dict(x['contents']), dict(y['contents'])
        return set(cx) == set(cy) and all(abs(cx[k] - cy[k]) <= 4 * grain + 1e-12 * abs(cx[k]) for k in cx)
    if va['k'] == 'c':
        return eq(va, vb)
    return all(eq(x, y) for ra, rb in zip(va['wells'], vb['wells']) for x, y in zip(ra, rb))


def two_spellings(draw, frac, fam):
    def txt(v, style):
        return dec_text(_frac_to_decstr(v), style)
    outs = []
    for _ in range(2):
        p = '' if fam == 'U' else draw(st.sampled_from(PREFIX_LIST))
        outs.append(f"{txt(frac / PREFIXES[p], draw(st.integers(0, 4)))} {p}{fam}")
    return outs


def check_api(col, pp, cfg, subs, scenario, a, b, extra):
    """the same call with spelling a and spelling b must give equal objects"""
    from engines import bench
    core.env.clear_caches()
    col.case()
    col.label('api')
    world = bench.World(pp, subs=subs)
    R = world.real
    case = {'api': scenario, 'a': a, 'b': b, 'extra': extra, 'subs': [s.to_json() for s in subs]}

    def build(q):
        if scenario == 'capacity':
            return pp.Container('x', q, [(R[0], extra['content'])])
        if scenario == 'plate-capacity':
            p = pp.Plate('p', q, rows=1, columns=2)
            return pp.Plate.transfer(pp.Container('s', initial_contents=[(R[0], extra['content'])]), p, extra['aliquot'])[1]
        if scenario == 'content':
            return pp.Container('x', initial_contents=[(R[extra['sub']], q)])
        if scenario == 'transfer':
            src = pp.Container('s', initial_contents=[(R[0], extra['content']), (R[1], extra['content2'])])
            return pp.Container.transfer(src, pp.Container('d'), q)[1]
        if scenario == 'fill_to':
            return pp.Container('x', initial_contents=[(R[1], extra['content2'])]).fill_to(R[0], q)
        if scenario == 'solution-conc':
            return pp.Container.create_solution(R[1], R[0], 'x', concentration=q, total_quantity=extra['total'])
        if scenario == 'solution-total':
            return pp.Container.create_solution(R[1], R[0], 'x', concentration=extra['conc'], total_quantity=q)
        if scenario == 'solution-conc2':
            return pp.Container.create_solution([R[1], R[2]], R[0], 'x', concentration=list(q), total_quantity=extra['total'])
        if scenario == 'dilute':
            c = pp.Container.create_solution(R[1], R[0], 'x', concentration=extra['conc'], total_quantity=extra['total'])
            return c.dilute(R[1], q, R[0])
        raise ValueError(scenario)
    outs = []
    for q in (a, b):
        try:
            outs.append(('ok', build(q)))
        except Exception as e:  # noqa
            outs.append(('exc', e))
    (ka, oa), (kb, ob) = outs
    if ka != kb:
        col.report(f"api/{scenario}/one-spelling-accepted-other-refused",
                   {'a': a, 'b': b, 'a_outcome': ka, 'b_outcome': kb, 'exc': repr(oa if ka == 'exc' else ob)[:120]}, case)
    elif ka == 'ok' and not views_equal(pp, oa, ob, cfg.grain):
        col.report(f"api/{scenario}/spellings-give-different-objects", {'a': a, 'b': b}, case)
    elif ka == 'ok' and scenario in ('capacity', 'plate-capacity'):
        # and the capacity both spellings give is the volume the string denotes
        from engines import bench
        want = float(Fraction(extra['denotes'][0])) / cfg.vol_mult
        v = bench.view(oa, pp)
        caps = [v['cap']] if v['k'] == 'c' else [w['cap'] for row in v['wells'] for w in row]
        if any(abs(c - want) > 1e-9 * want + cfg.grain for c in caps):
            col.report(f"api/{scenario}/capacity-is-not-what-the-string-denotes",
                       {'a': a, 'got_storage_units': caps[0], 'expected_storage_units': want}, case)
    elif ka == 'ok' and scenario == 'content' and 'denotes' in extra:
        # and what both spellings give is the amount the string denotes (v x SI factor of the prefix, in the base unit)
        frac, fam = Fraction(extra['denotes'][0]), extra['denotes'][1]
        sub = subs[extra['sub']]
        want = float(frac) / sub.factor(fam)
        got = world.ref.base_contents(oa).get(sub.name, 0.0)
        if abs(got - want) > 2.02 * cfg.grain * cfg.mol_mult + 1e-9 * want:
            col.report(f"api/content/amount-is-not-what-the-string-denotes/{fam}",
                       {'a': a, 'got_mol': got, 'expected_mol': want}, case)
    elif ka == 'ok' and scenario == 'solution-conc2':
        # each element of the list means what it says for its own solute (precision is C05's business: wide tolerance)
        base = world.ref.base_contents(oa)
        for i, (xs, num, den) in enumerate(extra['denotes2']):
            want = float(Fraction(xs))
            got = world.ref.conc(base, subs[1 + i].name, num, den)
            if abs(got - want) > 1e-5 * want:
                col.report(f"api/solution-conc2/concentration-is-not-what-the-string-denotes/{num}-per-{den}",
                           {'a': a, 'solute': subs[1 + i].name, 'got': got, 'expected': want}, case)
                break
    elif ka == 'ok' and scenario == 'transfer' and 'denotes' in extra:
        # the aliquot that arrives measures what the string denotes (exact split and rounding are C02's business:
        # the tolerance here is wide, a misread prefix is a factor of 10 at least)
        frac, fam = Fraction(extra['denotes'][0]), extra['denotes'][1]
        got = world.ref.size(world.ref.base_contents(oa), fam)
        if abs(got - float(frac)) > 1e-6 * float(frac) + 8 * cfg.grain * max(cfg.mol_mult, cfg.vol_mult) * 60:
            col.report(f"api/transfer/aliquot-is-not-what-the-string-denotes/{fam}",
                       {'a': a, 'got': got, 'expected': float(frac), 'unit': fam}, case)
    ua, ub = (' + '.join(x.split(' ', 1)[1] for x in v) if isinstance(v, list) else v.split(' ', 1)[1] for v in (a, b))
    col.nontrivial_key(f"api|{scenario}|{ua}|{ub}")
    col.sample({'scenario': scenario, 'a': a, 'b': b})


def check_capacity_unit(col, pp, text, where):
    """a capacity must be a volume: any other unit is rejected rather than read as litres"""
    col.case()
    col.label('capacity-unit')
    case = {'capacity_unit': text, 'where': where}
    try:
        obj = pp.Container('x', text) if where == 'Container' else pp.Plate('p', text, rows=1, columns=1)
    except Exception:
        return
    cap = obj.max_volume if where == 'Container' else obj.max_volume_per_well
    col.report(f"capacity/{where}/non-volume-unit-accepted", {'text': text, 'capacity_storage_units': cap}, case)


# ------------------------------------------------------------------------------------------------ (d) malformed

def lenient_quantity(text):
    toks = text.split()
    if len(toks) != 2:
        raise rparse.Unreadable(text)
    try:
        v = float(toks[0])
    except ValueError:
        raise rparse.Unreadable(text)
    if toks[1].endswith('M') and toks[1][:-1] in PREFIXES:
        # parse_quantity also reads molar amounts ('10 mM' -> 0.01 'M'); lenient: that reading or a rejection
        return v * float(PREFIXES[toks[1][:-1]]), 'M'
    mult, fam = rparse.unit_ref(toks[1], allow=('g', 'L', 'mol', 'U'))
    return v * float(mult), fam


def lenient_concentration(text, wv):
    t = ' '.join(text.split())
    for pct in ('%w/w', '%v/v', '%w/v'):
        if t.endswith(pct):
            try:
                v = float(t[:-len(pct)].strip())
            except ValueError:
                raise rparse.Unreadable(text)
            x, n, d = rparse.concentration(f"1 {pct}", wv)
            return v * float(x), n, d
    if t.count('/') == 1:
        left, right = (x.split() for x in t.split('/'))
        if len(left) != 2 or len(right) not in (1, 2):
            raise rparse.Unreadable(text)
        try:
            v = float(left[0])
            w = float(right[0]) if len(right) == 2 else 1.0
        except ValueError:
            raise rparse.Unreadable(text)
        # (a prefixed activity unit in a ratio, '5 mU/mL', is not a documented form; if it is read at all, then as SI says)
        (mn, fn), (md, fd) = rparse.unit_ref(left[1], prefixed_U=True), rparse.unit_ref(right[-1], prefixed_U=True)
        if w == 0:
            raise rparse.Unreadable(text)
        return v * float(mn) / (w * float(md)), fn, fd
    if '/' not in t and t and t[-1] in 'Mm':
        toks = t[:-1].split()
        if len(toks) == 1:
            toks.append('')
        if len(toks) != 2 or toks[1] not in PREFIXES:
            raise rparse.Unreadable(text)
        try:
            v = float(toks[0])
        except ValueError:
            raise rparse.Unreadable(text)
        v *= float(PREFIXES[toks[1]])
        return (v, 'mol', 'L') if t[-1] == 'M' else (v / 1000, 'mol', 'g')
    raise rparse.Unreadable(text)


def check_malformed(col, pp, cfg, kind, text, origin):
    col.case()
    col.label(f"malformed:{kind}")
    case = {'malformed': kind, 'text': text}
    try:
        lenient = lenient_quantity(text) if kind == 'q' else lenient_concentration(text, cfg.wv)
    except rparse.Unreadable:
        lenient = None
    except Exception:
        lenient = None
    try:
        got = pp.Unit.parse_quantity(text) if kind == 'q' else pp.Unit.parse_concentration(text)
    except Exception:
        return
    if lenient is None:
        col.report(f"malformed-accepted/{kind}/{origin}", {'text': text, 'parsed': list(got)}, case)
        return
    v = lenient[0]
    ok = list(got[1:]) == list(lenient[1:]) and (
        (isinstance(v, float) and (v != v and got[0] != got[0])) or
        abs(got[0] - v) <= 0.51 * cfg.grain + 1e-9 * abs(v) or (math.isinf(v) and got[0] == v))
    if not ok:
        col.report(f"lenient-reading-differs/{kind}/{origin}", {'text': text, 'parsed': list(got), 'lenient': list(lenient)}, case)


MUTATIONS = ['delete-char', 'insert-char', 'dup-char', 'swap-chars', 'drop-space', 'double-space', 'bad-prefix',
             'bad-unit', 'extra-slash', 'empty-number', 'zero-denominator', 'trailing-junk', 'comma-decimal']


def mutate(draw, text, kind):
    m = draw(st.sampled_from(MUTATIONS))
    i = draw(st.integers(0, max(0, len(text) - 1)))
    if ' ' not in text and m in ('bad-prefix', 'bad-unit', 'empty-number'):
        m = 'trailing-junk'
    if not text:
        return 'x', 'insert-char'
    if m == 'delete-char':
        return text[:i] + text[i + 1:], m
    if m == 'insert-char':
        return text[:i] + draw(st.sampled_from(list('xq/ %-.e1µ:,'))) + text[i:], m
    if m == 'dup-char':
        return text[:i] + text[i] + text[i:], m
    if m == 'swap-chars' and len(text) > 1:
        i = min(i, len(text) - 2)
        return text[:i] + text[i + 1] + text[i] + text[i + 2:], m
    if m == 'drop-space':
        return text.replace(' ', '', 1), m
    if m == 'double-space':
        return text.replace(' ', '  ', 1), m
    if m == 'bad-prefix' and '%' in text:          # a prefix glued to the percent sign is not a documented form
        return text.replace('%', draw(st.sampled_from(['m', 'µ', 'u', 'k', 'c', 'p', 'x'])) + '%', 1), m
    if m == 'bad-prefix':
        v, rest = text.split(' ', 1)
        return f"{v} {draw(st.sampled_from(['p', 'G', 'T', 'f', 'h', 'x', 'mm', 'K']))}{rest.lstrip('numµcdkM') if kind == 'q' else rest}", m
    if m == 'bad-unit':
        v, rest = text.split(' ', 1)
        return f"{v} {draw(st.sampled_from(['l', 'gram', 'mole', 'Mol', 's', 'u', 'V', 'units', 'G']))}" + \
            (('/' + rest.split('/', 1)[1]) if '/' in rest else ''), m
    if m == 'extra-slash':
        return text + '/L', m
    if m == 'empty-number':
        return text.split(' ', 1)[1] if ' ' in text else '', m
    if m == 'zero-denominator' and '/' in text:
        a, b = text.split('/', 1)
        return f"{a}/0 {b.split(' ')[-1]}", m
    if m == 'trailing-junk':
        return text + draw(st.sampled_from([' mL', ' x', '!', ' 5'])), m
    if m == 'comma-decimal':
        return text.replace('.', ',', 1) if '.' in text else text + ',', m
    return text + ' ', 'trailing-space'


# ------------------------------------------------------------------------------------------------ driver

def run(col):
    pp = core.env.bootstrap()
    cfg = RefCfg()
    nval = budget(2, 12, col.tier)
    # (a) grammar-complete enumeration, values by Hypothesis (sharded by combination index)
    q_units = [(p, f) for f in BASES for p in PREFIX_LIST] + [('', 'U')]
    c_parts_n = [(p, f) for f in BASES for p in PREFIX_LIST] + [('', 'U')]
    c_parts_d = [(p, f) for f in BASES for p in PREFIX_LIST]
    combos = [('q', u) for u in q_units]
    combos += [('ratio', n, d) for n in c_parts_n for d in c_parts_d]
    combos += [('ratiow', n, d) for n in c_parts_n for d in c_parts_d]
    combos += [('M', p) for p in PREFIX_LIST] + [('m', p) for p in PREFIX_LIST]
    combos += [('pct', f) for f in ('%w/w', '%v/v', '%w/v')]
    mine = [c for i, c in enumerate(combos) if i % col.nshards == col.shard]

    def t_grammar():
        @given(st.lists(dec_value(), min_size=nval, max_size=nval), st.lists(dec_value(-2, 3), min_size=nval, max_size=nval))
        def test(values, wvalues):
            for combo in mine:
                for (frac, text), (wfrac, wtext) in zip(values, wvalues):
                    if combo[0] == 'q':
                        p, f = combo[1]
                        check_quantity(col, pp, cfg, f"{text} {p}{f}", frac * PREFIXES[p], f, f"{p}{f}")
                    elif combo[0] == 'ratio':
                        (pn, fn), (pd, fd) = combo[1], combo[2]
                        exact = frac * PREFIXES[pn] / PREFIXES[pd]
                        check_concentration(col, pp, cfg, f"{text} {pn}{fn}/{pd}{fd}", exact, fn, fd, 'ratio', f"{pn}{fn}/{pd}{fd}")
                    elif combo[0] == 'ratiow':
                        (pn, fn), (pd, fd) = combo[1], combo[2]
                        exact = frac * PREFIXES[pn] / (wfrac * PREFIXES[pd])
                        check_concentration(col, pp, cfg, f"{text} {pn}{fn}/{wtext} {pd}{fd}", exact, fn, fd, 'ratiow',
                                            f"{pn}{fn}/w {pd}{fd}")
                    elif combo[0] == 'M':
                        check_concentration(col, pp, cfg, f"{text} {combo[1]}M", frac * PREFIXES[combo[1]], 'mol', 'L', 'M', f"{combo[1]}M")
                    elif combo[0] == 'm':
                        check_concentration(col, pp, cfg, f"{text} {combo[1]}m", frac * PREFIXES[combo[1]] / 1000, 'mol', 'g', 'm', f"{combo[1]}m")
                    else:
                        exact, n, d = rparse.concentration(f"{text} {combo[1]}", cfg.wv)
                        check_concentration(col, pp, cfg, f"{text} {combo[1]}", exact, n, d, 'pct', combo[1])
            col.enumerated += len(mine)
        return test
    core.run_property(col, t_grammar, budget(3, 12, col.tier), tag='grammar')

    # (b) families
    def t_family():
        @given(st.data())
        def test(data):
            num = data.draw(st.sampled_from(['mol', 'g', 'L', 'U']))
            den = data.draw(st.sampled_from(['L', 'g', 'mol']))
            m = data.draw(st.integers(1, 99999))
            e = data.draw(st.integers(-5, 3))
            x = Fraction(m) * Fraction(10) ** e
            if x * 10 ** cfg.P != int(x * 10 ** cfg.P):
                x = Fraction(int(x * 10 ** cfg.P) or 1, 10 ** cfg.P)
            check_family(col, pp, cfg, family(cfg, x, num, den, data.draw), x, num, den)
        return test
    core.run_property(col, t_family, budget(150, 3000, col.tier), tag='family')

    # (c) API level
    subs_fixed = [fill_defaults(Sub('liquid', 'H2O', 18.0153, 1.0), cfg), fill_defaults(Sub('solid', 'NaCl', 58.4428), cfg),
                  fill_defaults(Sub('solid', 'KCl', 74.5513), cfg)]

    def t_api():
        @given(st.data())
        def test(data):
            scenario = data.draw(st.sampled_from(['capacity', 'plate-capacity', 'content', 'transfer', 'fill_to',
                                                  'solution-conc', 'solution-conc2', 'solution-total', 'dilute']))
            m = data.draw(st.integers(1, 9999))
            extra = {'content': '2 mL', 'content2': '50 mg', 'aliquot': '10 uL', 'total': '10 mL', 'conc': '0.5 M', 'sub': 0}
            if scenario in ('capacity', 'plate-capacity'):
                # 2.5 .. 12.5 mL in litres with a whole number of uL, or the same digits three or six decades further
                # down (2.5 .. 12.5 uL with a fractional number of uL; nL-sized wells)
                down = data.draw(st.sampled_from([0, 0, 3, 6]))
                frac = Fraction(m + 2500, 10 ** (6 + down))
                if down:
                    extra['content'] = '2 uL' if down == 3 else '2 nL'
                    extra['aliquot'] = '1 uL' if down == 3 else '1 nL'
                a, b = two_spellings(data.draw, frac, 'L')
                extra['denotes'] = [str(frac), 'L']
            elif scenario == 'content':
                fam = data.draw(st.sampled_from(['L', 'g', 'mol']))
                extra['sub'] = data.draw(st.integers(0, 1))
                frac = Fraction(m, 10 ** 6)
                a, b = two_spellings(data.draw, frac, fam)
                extra['denotes'] = [str(frac), fam]
            elif scenario == 'transfer':
                fam = data.draw(st.sampled_from(['L', 'g', 'mol']))
                frac = Fraction(m, 10 ** 8)
                a, b = two_spellings(data.draw, frac, fam)
                extra['denotes'] = [str(frac), fam]
            elif scenario in ('fill_to', 'solution-total'):
                fam = data.draw(st.sampled_from(['L', 'g', 'mol']))
                frac = Fraction(m + 100, 10 ** 5) if fam != 'mol' else Fraction(m + 100, 10 ** 4)
                a, b = two_spellings(data.draw, frac, fam)
            elif scenario == 'solution-conc2':
                # one concentration per solute, each in its own spelling: every element is read on its own
                a, b = [], []
                for _ in range(2):
                    num = data.draw(st.sampled_from(['mol', 'g']))
                    den = data.draw(st.sampled_from(['L', 'g']))
                    x = {('mol', 'L'): Fraction(m, 10 ** 4), ('mol', 'g'): Fraction(m, 10 ** 7),
                         ('g', 'L'): Fraction(m, 10 ** 2), ('g', 'g'): Fraction(m, 10 ** 5)}[(num, den)] / 4
                    if x * 10 ** cfg.P != int(x * 10 ** cfg.P):
                        x = Fraction(int(x * 10 ** cfg.P) or 1, 10 ** cfg.P)
                    fam_sp = family(cfg, x, num, den, data.draw)
                    a.append(fam_sp[0])
                    b.append(fam_sp[-1])
                    extra.setdefault('denotes2', []).append([str(x), num, den])
            else:
                num = data.draw(st.sampled_from(['mol', 'g']))
                den = data.draw(st.sampled_from(['L', 'g', 'mol']))
                x = {('mol', 'L'): Fraction(m, 10 ** 4), ('mol', 'g'): Fraction(m, 10 ** 7), ('mol', 'mol'): Fraction(m, 10 ** 5),
                     ('g', 'L'): Fraction(m, 10 ** 2), ('g', 'g'): Fraction(m, 10 ** 5), ('g', 'mol'): Fraction(m, 10 ** 3)}[(num, den)]
                if scenario == 'dilute':
                    extra['conc'] = {'mol': '1 M', 'g': '1 M'}[num]
                    x = x / 50
                    if x * 10 ** cfg.P != int(x * 10 ** cfg.P):
                        x = Fraction(int(x * 10 ** cfg.P) or 1, 10 ** cfg.P)
                fam_sp = family(cfg, x, num, den, data.draw)
                a, b = fam_sp[0], fam_sp[-1]
            check_api(col, pp, cfg, subs_fixed, scenario, a, b, extra)
        return test
    core.run_property(col, t_api, budget(150, 3000, col.tier), tag='api')

    if col.shard == 0:
        with col.enumeration():
            for where in ('Container', 'Plate'):
                for text in ('10 g', '10 mg', '1 mol', '5 mmol', '3 U', '2 M', '1 mM', '10 kg'):
                    check_capacity_unit(col, pp, text, where)

    # (d) malformed
    def t_malformed():
        @given(st.data())
        def test(data):
            kind = data.draw(st.sampled_from(['q', 'c', 'c']))
            frac, text = data.draw(dec_value(-3, 3))
            if kind == 'q':
                p, f = data.draw(st.sampled_from(q_units))
                valid = f"{text} {p}{f}"
            else:
                form = data.draw(st.sampled_from(['ratio', 'ratiow', 'M', 'm', 'pct']))
                (pn, fn), (pd, fd) = data.draw(st.sampled_from(c_parts_n)), data.draw(st.sampled_from(c_parts_d))
                valid = {'ratio': f"{text} {pn}{fn}/{pd}{fd}", 'ratiow': f"{text} {pn}{fn}/10 {pd}{fd}",
                         'M': f"{text} {pd}M", 'm': f"{text} {pd}m",
                         'pct': f"{text} {data.draw(st.sampled_from(['%w/w', '%v/v', '%w/v']))}"}[form]
            bad, origin = mutate(data.draw, valid, kind)
            if data.draw(st.integers(0, 3)) == 0:
                bad, o2 = mutate(data.draw, bad, kind)
                origin = f"{origin}+{o2}" if origin < o2 else f"{o2}+{origin}"
            check_malformed(col, pp, cfg, kind, bad, origin.split('+')[0])
            col.nontrivial_key(f"mal|{kind}|{origin}|{len(bad) % 7}")
            col.sample({'valid': valid, 'mutated': bad, 'mutation': origin})
        return test
    core.run_property(col, t_malformed, budget(600, 20000, col.tier), tag='malformed')
    if col.tier == 'thorough' and col.shard < 8:
        atheris_tier(col)


FUZZ_DICT = ['" mol"', '" g"', '" L"', '" U"', '"/"', '" %w/w"', '" %v/v"', '" %w/v"', '" M"', '" m"', '"mmol"', '"umol"',
             '"mL"', '"uL"', '"kg"', '"da"', '"\xc2\xb5"', '"e-3"', '"0.5"', '"10 "', '"/10 mL"', '" U/mL"', '"nmol/L"']


def atheris_tier(col):
    """thorough tier only: a libFuzzer campaign per shard (own seed, fresh corpus + a few documented examples)"""
    import json
    import subprocess
    import sys
    import tempfile
    import shutil
    deps = os.path.join(core.env.VERIF_DIR, '.deps')
    if not os.path.isdir(os.path.join(deps, 'atheris')):
        col.notes.append('atheris is not installed under .deps: byte-fuzz tier skipped (Hypothesis mutation tier stands alone)')
        return
    work = tempfile.mkdtemp(prefix='c14-fuzz-')
    try:
        corpus = os.path.join(work, 'corpus')
        os.makedirs(corpus)
        if col.shard % 2 == 0:      # half of the shards start from documented examples, the other half from nothing
            for i, ex in enumerate(['1 mmol', '10.2 g', '10 uL', '3 U', '0.1 M', '0.1 m', '0.1 g/mL', '0.01 umol/10 uL',
                                    '5 %v/v', '5 %w/v', '5 %w/w', '10 U/mg']):
                for kind in (0, 1):
                    with open(os.path.join(corpus, f"seed{i}_{kind}"), 'wb') as f:
                        f.write(bytes([kind]) + ex.encode())
        dict_path = os.path.join(work, 'dict.txt')
        with open(dict_path, 'w') as f:
            f.write('\n'.join(FUZZ_DICT) + '\n')
        out = os.path.join(work, 'out.json')
        runs = core.budget(0, 2000000, col.tier)
        seed = core.derive_seed(col.seed, 'C14', 'atheris', col.shard) % (2 ** 31 - 1) + 1
        e = dict(os.environ, PYTHONPATH=os.pathsep.join([core.env.VERIF_DIR, deps, os.environ.get('PYTHONPATH', '')]))
        r = subprocess.run([sys.executable, os.path.join(core.env.VERIF_DIR, 'checks', 'c14_fuzz.py'), out, corpus,
                            f"-runs={runs}", f"-seed={seed}", '-max_len=48', f"-dict={dict_path}", '-print_final_stats=1'],
                           capture_output=True, text=True, env=e, timeout=3600)
        if not os.path.exists(out):
            col.notes.append(f"atheris run produced no result file (rc={r.returncode}): {r.stderr[-300:]}")
            return
        with open(out) as f:
            res = json.load(f)
        col.case(res['stats']['execs'])
        col.label('atheris-execs', res['stats']['execs'])
        col.label('atheris-strictly-valid-inputs', res['stats']['strict_valid'])
        cov = [ln for ln in r.stderr.splitlines() if ' cov: ' in ln]
        if cov:
            col.notes.append(f"atheris shard {col.shard} seed {seed}: {cov[-1].strip()[:160]}")
        for v in res['found']:
            with col.enumeration():
                col.report('atheris/' + v['sig'], v['detail'], v['case'])
    finally:
        shutil.rmtree(work, ignore_errors=True)


def replay(col, case):
    pp = core.env.bootstrap()
    cfg = RefCfg()
    if 'quantity' in case:
        exact, fam = rparse.quantity(case['quantity'])
        return check_quantity(col, pp, cfg, case['quantity'], exact, fam, case['quantity'].split(' ')[1])
    if 'concentration' in case:
        exact, n, d = rparse.concentration(case['concentration'], cfg.wv)
        t = case['concentration']
        form = 'pct' if '%' in t else 'ratiow' if t.count(' ') == 2 else 'ratio' if '/' in t else t[-1]
        return check_concentration(col, pp, cfg, t, exact, n, d, form, t.split(' ', 1)[1])
    if 'family' in case:
        return check_family(col, pp, cfg, case['family'], Fraction(case['x']), case['num'], case['den'])
    if 'api' in case:
        subs = [fill_defaults(Sub.from_json(d), cfg) for d in case['subs']]
        return check_api(col, pp, cfg, subs, case['api'], case['a'], case['b'], case['extra'])
    if 'capacity_unit' in case:
        return check_capacity_unit(col, pp, case['capacity_unit'], case['where'])
    if 'malformed' in case:
        return check_malformed(col, pp, cfg, case['malformed'], case['text'], 'replay')
