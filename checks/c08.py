"""C08 Baking a recipe equals performing its steps eagerly, in order.  Engine E2: Recipe+bake vs eager fold."""
from hypothesis import given, strategies as st

from harness import core
from harness.core import budget
from engines import bench, programs
from refchem.model import RefCfg

ID = 'C08'
SHARDS = {'quick': 8, 'thorough': 16}
RULE = ("@given programs of 1..12 (quick) / 1..25 (thorough) steps over the recipe vocabulary (create_container, "
        "create_solution with substance or container solvent, create_solution_from, transfer in every pairing form "
        "incl. plates/slices, remove, dilute (new_name sometimes), fill_to, stages anywhere), generated state-aware "
        "by running the eager fold in lockstep so that objects are re-read after they changed; optionally a last "
        "infeasible step. Oracle: eager fold of the same operations through the direct API over an environment "
        "name->object vs Recipe.bake(): same key set (declared + recipe-created), each object equal under its key "
        "(amounts/volume within 4 grains, capacity/name/layout exact); eager raises at a step <=> the recipe refuses "
        "(at the step-adding call or at bake); before bake recipe.results equals the declared objects and objects "
        "returned by create_* are empty. non-trivial = baked, >=3 steps, some object read after it was written; "
        "distinct by multiset of op kinds + read-after-write pattern")
ASSUMPTIONS = ["oracle = the library's own direct operations (differential at another granularity)",
               "explicit names are given to created solutions (default names differ between Recipe and Container API)",
               "only objects some step uses are declared (the unused-declaration rule belongs to C16)"]
def shard_config(shard, tier):
    """two of eight shards run under other documented settings: storage units (mmol, mL), and default densities
    2.5 / 0.4 with display units that differ from the storage units"""
    return {5: {'moles_storage_unit': 'mmol', 'volume_storage_unit': 'mL'},
            6: {'default_solid_density': 2.5, 'default_enzyme_density': 0.4, 'moles_display_unit': 'nmol',
                'volume_display_unit': 'mL'}}.get(shard % 8)


REQUIRED_CLASSES = {'quick': ['baked', 'eager-fails', 'raw'], 'thorough': ['baked', 'eager-fails', 'raw', 'stages']}


def raw_patterns(prog):
    """read-after-write patterns: key written by step i and read by a later step j"""
    written = {}
    pats = set()
    for idx, s in enumerate(programs.real_steps(prog)):
        reads, writes = [], []
        k = s['op']
        if k == 'transfer':
            reads = [s['src']['o'], s['dst']['o']]
            writes = reads
        elif k in ('remove', 'fill_to'):
            reads = writes = [s['obj']['o']]
        elif k == 'dilute':
            reads = writes = [s['obj']]
        elif k == 'solution':
            writes = [s['name']]
            if 'o' in s['solvent']:
                reads = [s['solvent']['o']]
                writes = writes + reads
        elif k == 'solution_from':
            reads = [s['src']]
            writes = [s['name'], s['src']]
        elif k == 'create_container':
            writes = [s['name']]
        for r in reads:
            if r in written:
                role = 'solvent' if (k == 'solution') else 'stock' if k == 'solution_from' else k
                pats.add(f"{written[r]}>{role}")
        for w in writes:
            written[w] = k
    return pats


step_variant = programs.step_variant
first_divergence = programs.first_divergence


def check_program(col, pp, cfg, prog):
    core.env.clear_caches()
    col.case()
    world = bench.World(pp, subs_json=prog['subs'])
    R = world.real
    eager = programs.run_eager(pp, R, prog)
    programs.set_rel_tol(world, eager, prog)
    rr = programs.run_recipe(pp, R, prog, bake=False, uses_as_list=[False, True, 'iter'][len(prog['steps']) % 3])
    case = prog
    steps = programs.real_steps(prog)
    kinds = '+'.join(sorted({s['op'] for s in steps}))
    # no effect before bake
    if rr.add_exc is None:
        for o in prog['objects']:
            held = rr.recipe.results.get(o['name'])
            if held is None or bench.view(held, pp) != bench.view(rr.decl[o['name']], pp):
                col.report('before-bake/results-differ-from-declared', {'object': o['name']}, case)
        for s in steps:
            if s['op'] in ('create_container', 'solution', 'solution_from'):
                v = bench.view(rr.decl[s['name']], pp)
                if v['contents']:
                    col.report('before-bake/created-object-not-empty', {'object': s['name']}, case)
        try:
            rr.results = rr.recipe.bake()
        except Exception as e:  # noqa
            rr.bake_exc = e
    refused = rr.add_exc is not None or rr.bake_exc is not None
    if any(s['op'] in ('start_stage', 'end_stage') for s in prog['steps']):
        col.label('stages')
    if eager.exc is not None:
        col.label('eager-fails')
        failing = steps[eager.failed_at]['op']
        if not refused:
            div = first_divergence(world, pp, rr, eager, prog)
            if div != 'unrecorded':
                # the states had already diverged at an earlier step: that step is the root cause
                col.report(f"result-differs/first-divergence={div}", {'eager_exc': repr(eager.exc)[:160]}, case)
            else:
                col.report(f"bake-accepts/eager-refuses/{failing}", {'eager_exc': repr(eager.exc)[:160],
                                                                     'step': eager.failed_at}, case)
        else:
            exc = rr.add_exc[1] if rr.add_exc else rr.bake_exc
            if isinstance(eager.exc, ValueError) and not isinstance(exc, ValueError):
                col.report(f"refusal-type/{failing}/{type(exc).__name__}-instead-of-ValueError", {'exc': repr(exc)[:160]}, case)
        col.nontrivial_key(f"fail|{failing}|{kinds}")
        return
    if refused:
        exc = rr.add_exc[1] if rr.add_exc else rr.bake_exc
        where = 'add' if rr.add_exc else 'bake'
        # which step? for bake: the first step whose recorded state is incomplete
        step_kind = steps[rr.add_exc[0]]['op'] if rr.add_exc else '-'
        if where == 'bake':
            done = sum(1 for st_ in rr.recipe.steps if len(st_.to) > 1)
            step_kind = step_variant(steps[done]) if done < len(steps) else 'end'
        if where == 'bake':
            # had the recorded states already diverged at an earlier step?  then that step is the root cause
            div = first_divergence(world, pp, rr, eager, prog)
            if div != 'unrecorded':
                col.report(f"result-differs/first-divergence={div}", {'exc': repr(exc)[:200], 'failing_step': step_kind}, case)
                return
        if where == 'bake' and step_kind == 'fill_to-slice':
            # one root cause with the 'differs' manifestation: bake fills the whole plate before the slice
            col.report("result-differs/first-divergence=fill_to-slice", {'exc': repr(exc)[:200]}, case)
        else:
            col.report(f"bake-refuses/eager-accepts/{where}/{step_kind}:{type(exc).__name__}", {'exc': repr(exc)[:200]}, case)
        return
    col.label('baked')
    res = rr.results
    if set(res.keys()) != set(eager.env.keys()):
        col.report('result-keys-differ', {'bake': sorted(res.keys()), 'eager': sorted(eager.env.keys())}, case)
    differing = [key for key in sorted(set(res.keys()) & set(eager.env.keys()))
                 if not programs.same_object(world, bench.view(res[key], pp), bench.view(eager.env[key], pp))]
    if differing:
        col.report(f"result-differs/first-divergence={first_divergence(world, pp, rr, eager, prog)}",
                   {'objects': differing}, case)
    pats = raw_patterns(prog)
    if pats:
        col.label('raw')
    if len(steps) >= 3 and pats:
        col.nontrivial_key(f"{kinds}|{'+'.join(sorted(pats))}")
        col.sample(lambda: {'objects': prog['objects'], 'steps': prog['steps']})


def run(col):
    pp = core.env.bootstrap()
    cfg = RefCfg()
    prof = {'max_steps': 12 if col.tier == 'quick' else 25, 'max_dim': 3}

    def t():
        @given(st.data())
        def test(data):
            core.env.clear_caches()
            prog = programs.gen_program(data.draw, pp, cfg, prof)
            check_program(col, pp, cfg, prog)
        return test
    core.run_property(col, t, budget(150, 2500, col.tier), tag='programs')


def replay(col, case):
    pp = core.env.bootstrap()
    check_program(col, pp, RefCfg(), case)
