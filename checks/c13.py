"""C13 Every documented way of addressing wells selects the documented wells.  Engine E3: complete enumeration of
the selector grammar on small plates + Hypothesis on big plates, against refchem.selectors.resolve."""
import itertools

from hypothesis import given, strategies as st

from harness import core
from harness.core import budget
from engines import benchgen
from refchem import selectors as rsel

ID = 'C13'
SHARDS = {'quick': 8, 'thorough': 16}
RULE = ("complete enumeration, for every plate r x c with r,c <= 3 (quick) / <= 5 (thorough), default labels and one "
        "custom labelling per shape (multi-character, digit-looking row labels, letter-looking column labels, spaces, "
        "non-ASCII), of the documented grammar: 'R:C'; (r,c) with int or label parts; row int / label; slice(a,b,k) "
        "with a,b in {None, ints, labels}, k in {None,1,2,3}; (rowspec, colspec) with each an int, label or slice "
        "(k in {None,2}); lists of length 1-2 complete (length 3 strided) incl. duplicates and mixed string/tuple "
        "forms; plus invalid selectors (0, n+1, -1, unknown labels, 3-tuples, a row selector inside a list, float, "
        "None). Hypothesis adds plates up to 40x40 with random valid/invalid selectors and default-label checks "
        "(rows vs own bijective base-26 up to 800 (thorough) rows, columns '1'..'n', well names). Oracle: own "
        "resolver -> expected (row, col) list in row-major (list: given) order; compared with names and order of "
        "plate[sel].get() flattened, and .shape/.size; invalid => raises. non-trivial = valid selector touching an "
        "edge, stepped, open-ended or label-addressed; every enumerated (shape, labelling, selector) is distinct")
ASSUMPTIONS = ["documented grammar = docs/users_guide/locations.rst + Slicer docstring; not generated because "
               "undocumented: negative steps, bool, slice-of-slice, 1-tuples, empty lists, start after stop",
               "labels never contain ':' (reserved separator)"]
REQUIRED_CLASSES = {'quick': ['form:wstr', 'form:wtup', 'form:row', 'form:rows', 'form:rc', 'form:list', 'invalid'],
                    'thorough': ['form:wstr', 'form:wtup', 'form:row', 'form:rows', 'form:rc', 'form:list', 'invalid',
                                 'big-plate', 'default-labels']}


def custom_labels(n, axis):
    if axis == 'r':
        # digit-looking labels whose value is not their position, with space, non-ASCII, multi-char
        pool = ['2', 'row 2', '1', '10', 'AA', 'x']
    else:
        pool = ['B', '3', 'ü', 'A', '07', 'k']           # letter-looking / digit-looking columns, not in position
    return pool[:n]


def bijective26(i):
    """1 -> A, 26 -> Z, 27 -> AA ..."""
    out = ''
    while i > 0:
        i -= 1
        out = chr(65 + i % 26) + out
        i //= 26
    return out


def make_plate(pp, rows, cols):
    return pp.Plate('p', '10 uL', rows=list(rows) if not isinstance(rows, int) else rows,
                    columns=list(cols) if not isinstance(cols, int) else cols)


def check_valid(col, plate, sel, rows, cols, labelling):
    coords, shape = rsel.resolve(sel, rows, cols)
    want = [f"well {rows[r]},{cols[c]}" for r, c in coords]
    col.case()
    col.label(f"form:{sel['t']}")

    def case():
        return {'rows': rows, 'cols': cols, 'labelling': labelling, 'sel': sel}
    try:
        s = plate[rsel.to_py(sel)]
        got = s.get()
        names = [w.name for w in got.flatten()]
        gshape, gsize = tuple(s.shape), s.size
    except Exception as e:  # noqa
        col.report(f"valid-selector-rejected/{sel['t']}:{type(e).__name__}", {'sel': rsel.show(sel), 'exc': repr(e)[:120]}, case)
        return
    if names != want:
        col.report(f"wrong-wells/{sel['t']}", {'sel': rsel.show(sel), 'got': names[:12], 'expected': want[:12]}, case)
    elif gshape != tuple(shape) or gsize != len(want):
        col.report(f"wrong-shape/{sel['t']}", {'sel': rsel.show(sel), 'got': [list(gshape), gsize],
                                                'expected': [list(shape), len(want)]}, case)
    return coords


def is_nontrivial(sel, coords, nr, nc):
    def has(x, pred):
        if isinstance(x, dict):
            return any(has(v, pred) for v in x.values())
        if isinstance(x, list):
            return any(has(v, pred) for v in x)
        return pred(x)
    edge = any(r in (0, nr - 1) or c in (0, nc - 1) for r, c in coords)
    label = has({k: v for k, v in sel.items() if k != 't'}, lambda v: isinstance(v, str))
    stepped = has(sel, lambda v: False) or any(isinstance(sel.get(a), dict) and sel[a].get('k') not in (None, 1) for a in ('r', 'c', 's'))
    open_ended = any(isinstance(sel.get(a), dict) and (sel[a].get('a') is None or sel[a].get('b') is None) for a in ('r', 'c', 's'))
    return edge or label or stepped or open_ended


def check_invalid(col, plate, py_sel, why, rows, cols, labelling):
    col.case()
    col.label('invalid')

    def case():
        return {'rows': rows, 'cols': cols, 'labelling': labelling, 'invalid': repr(py_sel), 'why': why}
    try:
        s = plate[py_sel]
        got = s.get()
        names = [w.name for w in got.flatten()]
    except Exception:
        return
    col.report(f"invalid-selector-accepted/{why}", {'sel': repr(py_sel), 'selected': names[:8]}, case)


def axis_specs(labels, steps):
    """all axis specs: ints, labels, and slices with start <= stop"""
    n = len(labels)
    out = [i + 1 for i in range(n)] + list(labels)
    ends = [None] + [i + 1 for i in range(n)] + list(labels)

    def pos(x, default):
        if x is None:
            return default
        return x - 1 if isinstance(x, int) else labels.index(x)
    for a in ends:
        for b in ends:
            if pos(a, 0) > pos(b, n - 1):
                continue
            for k in steps:
                out.append({'a': a, 'b': b, 'k': k})
    return out


def enumerate_plate(col, pp, rows, cols, labelling, shard_filter):
    plate = make_plate(pp, rows, cols)
    nr, nc = len(rows), len(cols)
    count = [0]

    def valid(sel):
        count[0] += 1
        if not shard_filter(count[0]):
            return
        coords = check_valid(col, plate, sel, rows, cols, labelling)
        col.enumerated += 1
        if coords is not None and is_nontrivial(sel, coords, nr, nc):
            col.nontrivial_count += 1
        if count[0] % 5000 == 1:
            col.sample({'rows': rows, 'cols': cols, 'sel': rsel.show(sel)})

    def invalid(py_sel, why):
        count[0] += 1
        if shard_filter(count[0]):
            check_invalid(col, plate, py_sel, why, rows, cols, labelling)
            col.enumerated += 1

    ridx = [i + 1 for i in range(nr)] + list(rows)
    cidx = [i + 1 for i in range(nc)] + list(cols)
    wells = []
    for r in rows:
        for c in cols:
            wells.append({'t': 'wstr', 'r': r, 'c': c})
    for r in ridx:
        for c in cidx:
            wells.append({'t': 'wtup', 'r': r, 'c': c})
    for w in wells:
        valid(w)
    for r in ridx:
        valid({'t': 'row', 'r': r})
    for spec in axis_specs(rows, [None, 1, 2, 3]):
        if isinstance(spec, dict):
            valid({'t': 'rows', 's': spec})
    rspecs, cspecs = axis_specs(rows, [None, 2]), axis_specs(cols, [None, 2])
    for rs in rspecs:
        for cs in cspecs:
            if not isinstance(rs, dict) and not isinstance(cs, dict):
                continue        # that is a well tuple, enumerated above
            valid({'t': 'rc', 'r': rs, 'c': cs})
    for a in wells:
        valid({'t': 'list', 'items': [a]})
    for a, b in itertools.product(wells, wells):
        valid({'t': 'list', 'items': [a, b]})
    stride = max(1, len(wells) ** 3 // 4000)
    for i, (a, b, c) in enumerate(itertools.product(wells, wells, wells)):
        if i % stride == 0:
            valid({'t': 'list', 'items': [a, b, c]})
    valid({'t': 'all'})
    # invalid selectors
    bad_r = [0, nr + 1, -1, 'no such row', '']
    bad_c = [0, nc + 1, -1, 'no such col', '']
    for r in bad_r:
        invalid(r, 'row-out-of-range') if r != '' else None
        for c in cidx[:2]:
            invalid((r, c), 'row-out-of-range')
            if isinstance(r, str):
                invalid(f"{r}:{cols[0]}", 'row-label-unknown')
    for c in bad_c:
        for r in ridx[:2]:
            invalid((r, c), 'col-out-of-range')
            invalid((slice(None), c), 'col-out-of-range')
            if isinstance(c, str):
                invalid(f"{rows[0]}:{c}", 'col-label-unknown')
    for a in (0, nr + 1, -1, 'zz'):
        invalid(slice(a, None), 'slice-start-out-of-range')
        invalid(slice(None, a), 'slice-stop-out-of-range')
        invalid((slice(a, None), slice(None)), 'slice-start-out-of-range')
        invalid((slice(None), slice(None, a if a != nr + 1 else nc + 1)), 'slice-stop-out-of-range')
    invalid((1, 1, 1), '3-tuple')
    invalid([1], 'row-selector-inside-list')
    invalid([rows[0]], 'row-selector-inside-list')
    invalid([(1, 1, 1)], '3-tuple-inside-list')
    invalid(1.0, 'float')
    invalid(None, 'None')
    invalid((1.5, 1), 'float')
    invalid(slice(1, 2, 0.5), 'float-step')
    invalid([(0, 1)], 'row-out-of-range')
    invalid([(1, nc + 1)], 'col-out-of-range')
    invalid([f"{rows[0]}:nope"], 'col-label-unknown')
    # a label means what it means on ITS axis: one that exists only on the other axis is unknown here
    only_rows = [x for x in rows if x not in cols]
    only_cols = [x for x in cols if x not in rows]
    if only_rows:
        invalid(f"{rows[0]}:{only_rows[0]}", 'row-label-used-as-column')
        invalid([(1, 1), (rows[0], only_rows[0])], 'row-label-used-as-column-in-list')
    if only_cols:
        invalid(f"{only_cols[0]}:{cols[0]}", 'column-label-used-as-row')
    # labels are matched exactly: a spelling that differs from a label in letter case (or by surrounding blanks) and
    # is not itself a label of that axis is unknown
    def variants(label):
        return [v for v in (label.lower(), label.upper(), label.swapcase(), label + ' ', ' ' + label) if v != label]
    for i, r in enumerate(rows):
        for v in variants(r):
            if v in rows or ':' in v:
                continue
            invalid(v, 'row-label-variant')
            invalid((v, 1), 'row-label-variant')
            invalid(f"{v}:{cols[0]}", 'row-label-variant')
            invalid(slice(v, None), 'row-label-variant-slice-start')
            invalid(slice(None, v), 'row-label-variant-slice-stop')
            invalid([(v, cols[0])], 'row-label-variant-in-list')
    for c in cols:
        for v in variants(c):
            if v in cols or ':' in v:
                continue
            invalid((1, v), 'col-label-variant')
            invalid(f"{rows[0]}:{v}", 'col-label-variant')
            invalid((slice(None), slice(v, None)), 'col-label-variant-slice-start')
            invalid((slice(None), slice(None, v)), 'col-label-variant-slice-stop')


def check_default_labels(col, pp, n_rows, n_cols):
    col.case()
    col.label('default-labels')
    plate = pp.Plate('p', '1 uL', rows=n_rows, columns=n_cols)
    case = {'default_labels': [n_rows, n_cols]}
    want_rows = [bijective26(i) for i in range(1, n_rows + 1)]
    want_cols = [str(i) for i in range(1, n_cols + 1)]
    if list(plate.row_names) != want_rows:
        bad = next(i for i, (a, b) in enumerate(zip(plate.row_names, want_rows)) if a != b)
        col.report('default-row-labels-wrong', {'index': bad + 1, 'got': plate.row_names[bad], 'expected': want_rows[bad]}, case)
    if list(plate.column_names) != want_cols:
        col.report('default-column-labels-wrong', {}, case)
    if plate.wells.shape != (n_rows, n_cols):
        col.report('plate-shape-wrong', {'got': list(plate.wells.shape)}, case)
    for r in (0, n_rows - 1):
        for c in (0, n_cols - 1):
            if plate.wells[r, c].name != f"well {want_rows[r]},{want_cols[c]}":
                col.report('well-name-wrong', {'got': plate.wells[r, c].name}, case)
    # the last row is reachable by index, by label and as the end of a slice
    for sel in ({'t': 'wtup', 'r': n_rows, 'c': n_cols}, {'t': 'wstr', 'r': want_rows[-1], 'c': want_cols[-1]},
                {'t': 'rc', 'r': {'a': want_rows[-1], 'b': None, 'k': None}, 'c': n_cols}):
        check_valid(col, plate, sel, want_rows, want_cols, 'default')
    col.nontrivial_key(f"labels|{n_rows}|{n_cols}")


def run(col):
    pp = core.env.bootstrap()
    maxdim = 3 if col.tier == 'quick' else 5
    shard_filter = lambda i: i % col.nshards == col.shard
    with col.enumeration():
        for nr in range(1, maxdim + 1):
            for nc in range(1, maxdim + 1):
                rows = [bijective26(i + 1) for i in range(nr)]
                cols = [str(i + 1) for i in range(nc)]
                enumerate_plate(col, pp, rows, cols, 'default', shard_filter)
                enumerate_plate(col, pp, custom_labels(nr, 'r'), custom_labels(nc, 'c'), 'custom', shard_filter)
                # the same label strings on both axes, at different positions
                enumerate_plate(col, pp, ['0', '1', '10', 'A', 'x'][:nr], ['10', 'A', '1', '0', 'x'][:nc], 'shared', shard_filter)
                # labels that differ only in letter case are different labels
                enumerate_plate(col, pp, ['a', 'A', 'Ab', 'aB', 'b'][:nr], ['x', 'X', 'a', 'xY', 'Xy'][:nc], 'case', shard_filter)
    col.exhaustive = True

    def t_big():
        @given(st.data())
        def test(data):
            nr, nc = data.draw(st.integers(1, 40)), data.draw(st.integers(1, 40))
            custom = data.draw(st.booleans())
            rows = [bijective26(i + 1) for i in range(nr)] if not custom else [f"r{i}" for i in range(nr)]
            cols = [str(i + 1) for i in range(nc)] if not custom else [f"c{i}" for i in range(nc)]
            plate = make_plate(pp, rows, cols)
            col.label('big-plate')
            for _ in range(6):
                sel = benchgen.any_selector(data.draw, rows, cols)
                if sel['t'] == 'plate':
                    continue
                coords = check_valid(col, plate, sel, rows, cols, 'custom' if custom else 'default')
                if coords is not None and is_nontrivial(sel, coords, nr, nc):
                    col.nontrivial_key(f"big|{nr}x{nc}|{rsel.show(sel)}")
            bad = data.draw(st.sampled_from([nr + 1, 0, -1, nr + 7, 'nope']))
            check_invalid(col, plate, (bad, 1), 'row-out-of-range', rows, cols, 'big')
            check_invalid(col, plate, (slice(1, bad if bad != 'nope' and bad > nr else nr + 1), 1), 'slice-stop-out-of-range', rows, cols, 'big')
        return test
    core.run_property(col, t_big, budget(40, 600, col.tier), tag='big')

    def t_labels():
        @given(st.integers(1, 60 if col.tier == 'quick' else 800), st.integers(1, 30))
        def test(n_rows, n_cols):
            check_default_labels(col, pp, n_rows, n_cols)
        return test
    core.run_property(col, t_labels, budget(15, 120, col.tier), tag='labels')
    if col.shard == 0:
        for n in (26, 27, 52, 53, 676, 677, 702, 703, 728, 729):
            with col.enumeration():
                check_default_labels(col, pp, n, 2)


def replay(col, case):
    pp = core.env.bootstrap()
    if 'default_labels' in case:
        return check_default_labels(col, pp, *case['default_labels'])
    plate = make_plate(pp, case['rows'], case['cols'])
    if 'sel' in case:
        check_valid(col, plate, case['sel'], case['rows'], case['cols'], case.get('labelling'))
    else:
        check_invalid(col, plate, eval(case['invalid'], {'slice': slice}), case['why'], case['rows'], case['cols'],
                      case.get('labelling'))
