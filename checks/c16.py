"""C16 Recipe lifecycle discipline is enforced.  Engine E4: reference protocol model of the Recipe API;
bounded-exhaustive call sequences + Hypothesis-generated long call histories."""
import itertools

from hypothesis import strategies as st

from harness import core
from harness.core import budget
from engines import bench

ID = 'C16'
SHARDS = {'quick': 8, 'thorough': 16}
RULE = ("alphabet of 36 calls over a small world (containers c1, c2, an equal-named twin of c1, undeclared c3, plate "
        "p1): uses(x | list | twin), create_container(new | duplicate), create_solution(new | duplicate | declared "
        "container solvent | undeclared container solvent), create_solution_from(declared | undeclared source), "
        "transfer(declared | undeclared source | undeclared destination | into plate), remove / dilute (also with new_name) / fill_to "
        "(declared | undeclared), start_stage / end_stage (a | b | 'all'), bake. Exhaustive over all sequences of "
        "length <= 3 (quick) / <= 4 (thorough), cut at the first raising bake; plus Hypothesis-generated "
        "histories of up to 30 calls. Oracle: reference protocol model {declared, used, steps, open stage, stage "
        "names, locked} predicting accept / ValueError / RuntimeError per call (an undeclared operand may be refused "
        "at the call or at the latest by a raising bake); after a successful bake every declaring or step-adding "
        "call => RuntimeError, len(steps) unchanged, second bake => RuntimeError, bake results and a fixed battery "
        "of tracking answers identical before and after the refused calls; an open stage is closed by bake and spans "
        "to the last step. non-trivial = sequence with a bake or a stage call and >= 1 refusal; distinct sequences")
ASSUMPTIONS = ["objects are identified by name (a twin with a declared name is the declared object)",
               "all generated steps are chemically feasible, so every refusal is a lifecycle refusal",
               "behaviour after a failed bake is not covered by any clause: sequences are cut there",
               "uses([new, duplicate]) (partial application) is not judged"]
REQUIRED_CLASSES = {'quick': ['baked', 'bake-refused', 'after-bake-call'], 'thorough': ['baked', 'bake-refused', 'after-bake-call', 'long']}

CALLS = ['uses:c1', 'uses:c2', 'uses:p1', 'uses:[c2,p1]', 'uses:gen(c2,p1)', 'uses:twin', 'uses:[c1,twin]',
         'create_container:n1', 'create_container:c1',
         'solution:s1', 'solution:c1', 'solution:s2/c2', 'solution:s3/c3',
         'solution_from:f1/c1', 'solution_from:f2/c3', 'solution_from_bad:f1/c1',
         'transfer:c1>c2', 'transfer:c3>c2', 'transfer:c1>c3', 'transfer:c1>p1', 'transfer:twin>c2',
         'remove:c1', 'remove:c3', 'dilute:c1', 'dilute:c3', 'dilute_as:c1', 'fill_to:c2', 'fill_to:c3', 'fill_to:p1',
         'start:a', 'start:b', 'start:all', 'end:a', 'end:b', 'end:all', 'bake']


class World16:
    def __init__(self, pp):
        self.pp = pp
        S = pp.Substance
        self.water = S.liquid('H2O', 18.0153, 1.0)
        self.salt = S.solid('NaCl', 58.4428)
        self.c1 = pp.Container.create_solution(self.salt, self.water, 'c1', concentration='1 M', total_quantity='10 mL')
        self.c2 = pp.Container('c2', initial_contents=[(self.water, '1000 mL')])
        self.c3 = pp.Container.create_solution(self.salt, self.water, 'c3', concentration='1 M', total_quantity='10 mL')
        # an equal-named twin: a distinct object with the name (and the chemistry) of c1
        self.twin = pp.Container.create_solution(self.salt, self.water, 'c1', concentration='1 M', total_quantity='10 mL')
        self.p1 = pp.Plate('p1', '200 uL', rows=2, columns=2)
        self.recipe = pp.Recipe()
        self.handles = {'c1': self.c1, 'c2': self.c2, 'c3': self.c3, 'twin': self.twin, 'p1': self.p1}

    def call(self, name):
        r, h, w, s = self.recipe, self.handles, self.water, self.salt
        kind, _, arg = name.partition(':')
        if kind == 'uses':
            if arg == '[c2,p1]':
                return r.uses([h['c2'], h['p1']])
            if arg == '[c1,twin]':
                return r.uses([h['c1'], h['twin']])         # two distinct objects with one name inside one list
            if arg == 'gen(c2,p1)':
                return r.uses(x for x in (h['c2'], h['p1']))       # any iterable, also one that can be walked only once
            return r.uses(h[arg])
        if kind == 'create_container':
            # same chemistry as c1 (about 1 M NaCl), so that a created 'c1' can stand in for the declared one
            return r.create_container(arg, '50 mL', [(w, '10 mL'), (s, '10 mmol')])
        if kind == 'solution':
            nm, _, solv = arg.partition('/')
            solvent = h[solv] if solv else w
            # same chemistry as c1, so that a solution named 'c1' can stand in for the declared one
            return r.create_solution(s, solvent, nm, concentration='1 M', total_quantity='10 mL')
        if kind == 'solution_from':
            nm, _, src = arg.partition('/')
            return r.create_solution_from(h[src], s, '0.05 M', w, '0.5 mL', nm)
        if kind == 'solution_from_bad':
            # right types, refused value: the call must raise and leave nothing behind (no declared name, no step)
            nm, _, src = arg.partition('/')
            return r.create_solution_from(h[src], s, '0.05 M', w, '0 mL', nm)
        if kind == 'transfer':
            a, b = arg.split('>')
            return r.transfer(h[a], h[b], '5 uL' if b == 'p1' else '0.1 mL')
        if kind == 'remove':
            return r.remove(h[arg], self.pp.Substance.ENZYME)
        if kind == 'dilute':
            return r.dilute(h[arg], s, '0.5 M', w)
        if kind == 'dilute_as':
            return r.dilute(h[arg], s, '0.5 M', w, 'renamed')
        if kind == 'fill_to':
            return r.fill_to(h[arg], w, '100 uL' if arg == 'p1' else '1500 mL')
        if kind == 'start':
            return r.start_stage(arg)
        if kind == 'end':
            return r.end_stage(arg)
        if kind == 'bake':
            return r.bake()
        raise ValueError(name)


def chemistry_feasible(pp, accepted):
    """Eager fold of the accepted step-adding calls through the direct API on fresh objects: is the recipe
    chemically feasible?  True / False / None (an operand does not exist yet at its step: order-dependent).
    Lifecycle refusals are the model's business; this only keeps chemical refusals of bake out of the verdict."""
    w = World16(pp)
    env = {'c1': w.c1, 'c2': w.c2, 'p1': w.p1, 'c3': w.c3}
    S, W = w.salt, w.water
    try:
        for name in accepted:
            kind, _, arg = name.partition(':')
            if kind == 'create_container':
                env[arg] = pp.Container(arg, '50 mL', [(W, '10 mL'), (S, '10 mmol')])
            elif kind == 'solution':
                nm, _, solv = arg.partition('/')
                if solv:
                    env[solv], env[nm] = pp.Container.create_solution(S, env[solv], nm, concentration='1 M', total_quantity='10 mL')
                else:
                    env[nm] = pp.Container.create_solution(S, W, nm, concentration='1 M', total_quantity='10 mL')
            elif kind == 'solution_from':
                nm, _, src = arg.partition('/')
                env[src], env[nm] = pp.Container.create_solution_from(env[src], S, '0.05 M', W, '0.5 mL', nm)
            elif kind == 'transfer':
                a, b = arg.split('>')
                a = 'c1' if a == 'twin' else a
                if b == 'p1':
                    env[a], env[b] = pp.Plate.transfer(env[a], env[b], '5 uL')
                else:
                    env[a], env[b] = pp.Container.transfer(env[a], env[b], '0.1 mL')
            elif kind == 'remove':
                env[arg] = env[arg].remove(pp.Substance.ENZYME)
            elif kind == 'dilute':
                env[arg] = env[arg].dilute(S, '0.5 M', W)
            elif kind == 'dilute_as':
                env[arg] = env[arg].dilute(S, '0.5 M', W, 'renamed')
            elif kind == 'fill_to':
                env[arg] = env[arg].fill_to(W, '100 uL' if arg == 'p1' else '1500 mL')
    except KeyError:
        return None
    except Exception:  # noqa
        return False
    return True


class Model:
    """reference protocol model"""

    def __init__(self):
        self.declared = set()
        self.used = set()
        self.steps = 0
        self.open = None
        self.open_start = 0
        self.stage_names = {'all'}
        self.locked = False
        self.created = set()         # names that come into existence through a create_* step
        self.pending = set()         # names used as operands while undeclared: bake must fail unless declared by then
        self.ambiguous = False
        self.stop_after = False

    def expect(self, name):
        """-> (set of acceptable outcomes, effect thunk applied when the call is accepted)
        outcomes: 'ok', 'ValueError', 'RuntimeError', 'any-exception'"""
        kind, _, arg = name.partition(':')
        if self.locked:
            if kind in ('start', 'end'):
                return {'RuntimeError', 'any-exception', 'ok-noop'}, None
            return {'RuntimeError'}, None
        if kind == 'uses':
            names = {'c1': ['c1'], 'c2': ['c2'], 'p1': ['p1'], 'twin': ['c1'], '[c2,p1]': ['c2', 'p1'], 'gen(c2,p1)': ['c2', 'p1'],
                     '[c1,twin]': ['c1', 'c1']}[arg]
            if len(set(names)) < len(names):
                # the second object has the name of the first: refused; how much of the list was applied before the
                # refusal is not covered by any clause, so the history is judged up to this call only
                self.stop_after = True
                return {'ValueError'}, None
            dups = [n for n in names if n in self.declared]
            if dups:
                if len(names) == 2 and names[0] not in self.declared:
                    self.ambiguous = True
                return {'ValueError'}, None
            return {'ok'}, lambda: self.declared.update(names)
        if kind == 'create_container':
            if arg in self.declared:
                return {'ValueError'}, None
            return {'ok'}, lambda: (self.declared.add(arg), self.used.add(arg), self.created.add(arg), self._step())
        if kind == 'solution':
            nm, _, solv = arg.partition('/')
            if nm in self.declared:
                return {'ValueError'}, None
            if solv and solv not in self.declared:
                # undeclared operand: refuse now, or the bake must fail
                return {'ValueError', 'ok'}, lambda: (self.declared.add(nm), self.created.add(nm), self.used.update([nm, solv]), self._step(), self._poison(solv))
            return {'ok'}, lambda: (self.declared.add(nm), self.created.add(nm), self.used.add(nm), self.used.add(solv) if solv else None, self._step())
        if kind == 'solution_from_bad':
            return {'ValueError'}, None
        if kind == 'solution_from':
            nm, _, src = arg.partition('/')
            if nm in self.declared:
                return {'ValueError'}, None
            if src not in self.declared:
                return {'ValueError', 'ok'}, lambda: (self.declared.add(nm), self.created.add(nm), self.used.update([nm, src]), self._step(), self._poison(src))
            return {'ok'}, lambda: (self.declared.add(nm), self.created.add(nm), self.used.update([nm, src]), self._step())
        if kind == 'transfer':
            a, b = arg.split('>')
            a = 'c1' if a == 'twin' else a
            if a not in self.declared or b not in self.declared:
                return {'ValueError', 'ok'}, lambda: (self._step(), self._poison(a, b), self.used.update([a, b]))
            return {'ok'}, lambda: (self.used.update([a, b]), self._step())
        if kind in ('remove', 'dilute', 'dilute_as', 'fill_to'):
            if arg not in self.declared:
                return {'ValueError', 'ok'}, lambda: (self._step(), self._poison(arg), self.used.add(arg))
            return {'ok'}, lambda: (self.used.add(arg), self._step())
        if kind == 'start':
            if arg in self.stage_names or self.open is not None:
                return {'ValueError'}, None
            return {'ok'}, lambda: self._start(arg)
        if kind == 'end':
            if self.open is None or self.open != arg:
                return {'ValueError'}, None
            return {'ok'}, lambda: self._end()
        if kind == 'bake':
            if self.pending - self.declared:
                return {'any-exception'}, None
            if self.pending & self.created:
                # an operand that was undeclared at its step was later *created* by the recipe: at bake time the
                # earlier step sees it empty, so the bake may fail for chemical reasons: either outcome
                return {'ok', 'any-exception'}, lambda: self._bake()
            if self.declared - self.used:
                return {'ValueError'}, None
            return {'ok'}, lambda: self._bake()
        raise ValueError(name)

    def _step(self):
        self.steps += 1

    def _poison(self, *names):
        self.pending.update(n for n in names if n not in self.declared)

    def _start(self, n):
        self.open = n
        self.open_start = self.steps

    def _end(self):
        self.stage_names.add(self.open)
        self.open = None

    def _bake(self):
        self.locked = True


def outcome_of(fn):
    try:
        fn()
        return 'ok', None
    except ValueError as e:
        return 'ValueError', e
    except RuntimeError as e:
        return 'RuntimeError', e
    except Exception as e:  # noqa
        return type(e).__name__, e


def battery(w, pp, order=('used', 'flows', 'remaining')):
    """fixed battery of tracking answers + results, as comparable data; `order` = order in which the three kinds of
    question are asked (the answers must not depend on it: tracking queries are read-only)"""
    r = w.recipe
    out = {'steps': len(r.steps), 'stages': sorted((k, (v.start, v.stop)) for k, v in r.stages.items()),
           'results': {k: bench.view(v, pp) for k, v in sorted(r.results.items())}}
    timeframes = sorted(r.stages.keys())
    for kind in order:
        for key, obj in sorted(r.results.items()):
            for tf in timeframes:
                if kind == 'used':
                    for sub in (w.salt, w.water):
                        try:
                            out[f"used:{key}:{tf}:{sub.name}"] = r.get_substance_used(sub, tf, 'umol', [obj])
                        except Exception as e:  # noqa
                            out[f"used:{key}:{tf}:{sub.name}"] = type(e).__name__
                elif kind == 'flows':
                    try:
                        f = r.get_container_flows(obj, tf, 'uL')
                        out[f"flows:{key}:{tf}"] = {k: (v.tolist() if hasattr(v, 'tolist') else v) for k, v in f.items()}
                    except Exception as e:  # noqa
                        out[f"flows:{key}:{tf}"] = type(e).__name__
                else:
                    try:
                        a = r.get_amount_remaining(obj, tf, 'uL')
                        out[f"remaining:{key}:{tf}"] = a.tolist() if hasattr(a, 'tolist') else a
                    except Exception as e:  # noqa
                        out[f"remaining:{key}:{tf}"] = type(e).__name__
    return out


def run_sequence(col, pp, seq, long_=False):
    core.env.clear_caches()
    col.case()
    w = World16(pp)
    m = Model()
    case = {'sequence': list(seq)}
    refusals = 0
    accepted = []
    has_bake_or_stage = False
    baseline = None
    for i, name in enumerate(seq):
        kind = name.partition(':')[0]
        if kind in ('bake', 'start', 'end'):
            has_bake_or_stage = True
        acceptable, effect = m.expect(name)
        if kind == 'bake' and acceptable == {'ok'} and chemistry_feasible(pp, accepted) is not True:
            # the steps themselves cannot be carried out (e.g. fill_to below what is there by now): bake may refuse
            acceptable = {'ok', 'any-exception'}
            col.label('chemistry-infeasible')
        if m.ambiguous:
            col.exclude('uses([new, duplicate]): partial application not judged')
            return
        was_locked = m.locked
        before_steps = len(w.recipe.steps)
        got, exc = outcome_of(lambda: w.call(name))
        if got != 'ok':
            refusals += 1
        okay = got in acceptable or ('any-exception' in acceptable and got != 'ok') or \
            ('ok-noop' in acceptable and got == 'ok')
        ctx = 'after-bake' if was_locked else 'before-bake'
        if was_locked:
            col.label('after-bake-call')
        if not okay:
            exp = '|'.join(sorted(acceptable))
            col.report(f"{ctx}/{name.split(':')[0]}:{name.partition(':')[2] if kind in ('end', 'start', 'uses') else ''}"
                       f"/expected={exp}/got={got}", {'call': name, 'index': i, 'exc': repr(exc)[:160] if exc else None}, case)
            return
        if m.stop_after and not was_locked:
            col.exclude('uses([a, same-named b]): state after the refusal not judged')
            return
        if got == 'ok' and effect is not None:
            effect()
            if kind not in ('uses', 'start', 'end', 'bake') and not was_locked:
                accepted.append(name)
        if was_locked:
            # nothing may change after a successful bake
            if len(w.recipe.steps) != baseline['steps']:
                col.report(f"after-bake/{kind}/steps-appended", {'call': name}, case)
                return
            now = battery(w, pp)
            if now != baseline:
                diff = [k for k in now if now[k] != baseline.get(k)]
                col.report(f"after-bake/{kind}/tracking-answers-changed", {'call': name, 'changed': diff[:5]}, case)
                return
        if kind == 'bake':
            if got == 'ok':
                col.label('baked')
                res = w.recipe.results
                if set(res.keys()) != m.declared:
                    col.report('bake/result-keys-differ-from-declared', {'keys': sorted(res.keys()), 'declared': sorted(m.declared)}, case)
                if m.open is not None:
                    sl = w.recipe.stages.get(m.open)
                    if sl is None or (sl.start, sl.stop) != (m.open_start, len(w.recipe.steps)):
                        col.report('bake/open-stage-not-closed-to-last-step',
                                   {'stage': m.open, 'got': None if sl is None else [sl.start, sl.stop],
                                    'expected': [m.open_start, len(w.recipe.steps)]}, case)
                    m._end()
                if not w.recipe.locked:
                    col.report('bake/not-locked', {}, case)
                # tracking queries are read-only: the answers must not depend on the order they are asked in
                first = battery(w, pp, ('flows', 'remaining', 'used'))
                baseline = battery(w, pp)
                again = battery(w, pp, ('flows', 'remaining', 'used'))
                if first != baseline or again != baseline:
                    diff = [k2 for k2 in baseline if first.get(k2) != baseline[k2] or again.get(k2) != baseline[k2]]
                    col.report('after-bake/tracking-answers-depend-on-query-order', {'changed': diff[:5]}, case)
                    return
            elif not was_locked:
                col.label('bake-refused')
                break          # behaviour after a failed bake is not covered by any clause
        elif got == 'ok' and not was_locked and kind not in ('uses', 'start', 'end'):
            if len(w.recipe.steps) != before_steps + 1:
                col.report(f"before-bake/{kind}/step-count", {'before': before_steps, 'after': len(w.recipe.steps)}, case)
    if has_bake_or_stage and refusals:
        if long_:
            col.nontrivial_key('long|' + '|'.join(seq))
        else:
            col.nontrivial_count += 1
    if long_ or col.evaluations % 997 == 0:
        col.sample(lambda: {'sequence': list(seq)})


def long_sequences(col, pp):
    """call histories up to 30 calls; generation does not depend on the state, so a history is a list of calls
    (Hypothesis shrinks it by deleting and simplifying calls)"""
    from hypothesis import given

    @given(st.lists(st.sampled_from(CALLS), min_size=4, max_size=30))
    def test(seq):
        col.label('long')
        run_sequence(col, pp, seq, long_=True)
    return test


def shaped_sequences(col, pp):
    """histories with the shape of a real session: some declarations, some steps (stages in between), a bake, a few
    calls afterwards.  A uniformly random list rarely declares two objects, uses one of them twice and then bakes."""
    from hypothesis import given
    uses = [c for c in CALLS if c.startswith('uses:')]
    stages = [c for c in CALLS if c.startswith(('start:', 'end:'))]
    steps = [c for c in CALLS if not c.startswith(('uses:', 'start:', 'end:')) and c != 'bake']

    @given(st.lists(st.sampled_from(uses), min_size=1, max_size=4),
           st.lists(st.sampled_from(steps + steps + stages), min_size=1, max_size=8),
           st.lists(st.sampled_from(CALLS), min_size=0, max_size=4))
    def test(decl, body, tail):
        col.label('long')
        col.label('shaped')
        run_sequence(col, pp, decl + body + ['bake'] + tail, long_=True)
    return test


def run(col):
    pp = core.env.bootstrap()
    maxlen = 3 if col.tier == 'quick' else 4
    idx = 0
    with col.enumeration():
        for n in range(1, maxlen + 1):
            for seq in itertools.product(CALLS, repeat=n):
                # prefixes that end in a raising bake are cut inside run_sequence; skip sequences with a bake
                # followed by more than two further calls only in the longest tier to keep the count bounded
                idx += 1
                if idx % col.nshards != col.shard:
                    continue
                run_sequence(col, pp, seq)
                col.enumerated += 1
    col.exhaustive = True
    core.run_property(col, lambda: long_sequences(col, pp), budget(150, 3000, col.tier), tag='long')
    core.run_property(col, lambda: shaped_sequences(col, pp), budget(150, 3000, col.tier), tag='shaped')


def replay(col, case):
    pp = core.env.bootstrap()
    run_sequence(col, pp, case['sequence'], long_=True)
