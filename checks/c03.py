"""C03 Impossible states are never produced; infeasible requests are refused.  Engine E1, monitor `feasible`,
plus an enumerated exact-capacity grid."""
import math

from harness import core
from harness.core import budget
from engines import bench, benchmachine, benchgen
from engines.benchmachine import Monitor
from refchem import selectors as rsel
from refchem.model import RefCfg, split_unit, prefix_f

ID = 'C03'
SHARDS = {'quick': 8, 'thorough': 16}
RULE = ("stateful histories over every direct operation (construction incl. negative/over-capacity contents and "
        "non-positive capacities, transfer in all pairing forms with sizes on both sides of every boundary, remove, "
        "fill_to below/at/above current and capacity, dilute, create_solution, create_solution_from), continuing "
        "after refusals. (a) every returned container/well: amounts >= -2 grains, 0 <= volume <= capacity (+2 "
        "grains), finite; (b) reference margin clearly infeasible => ValueError; (c) clearly feasible => returns; "
        "inside the derived rounding band either is fine. Plus an enumerated exact-capacity grid (v=1..N x "
        "{uL,mL,L,cross-prefix} x {constructor, fill_to, whole transfer}) that must be accepted. evaluations = "
        "operations judged; non-trivial = request within 3 decades of its boundary or exact; distinct by (op, unit "
        "family, verdict, boundary kind, outcome)")
ASSUMPTIONS = ["feasibility margins come from refchem sizes; the don't-care band is the derived rounding tolerance",
               "zero-size requests are don't-care for accept/refuse (if accepted they must satisfy the state invariant)",
               "dilute / create_solution / create_solution_from accept-refuse oracles live in C11 / C05 / C12; here "
               "their results are held to the state invariant and to refusal of negative quantities",
               "TypeError is not generated for (no wrongly typed arguments)"]
def shard_config(shard, tier):
    """two of eight shards run with other storage units (a documented setting): what is feasible is a physical
    question and does not depend on them (e.g. a plate's per-well capacity is 50 uL however volumes are stored)"""
    # (units whose amount grain, as a volume, stays below the volume grain: under e.g. (mmol, nL) the second of two
    # exact 1 uL aliquots of water is short by 7e-7 nL of what the stored 0.0555083734 mmol amount to, and whether
    # that "fits" is a question about the configured resolution, left to C18's don't-care band)
    return {6: {'volume_storage_unit': 'mL'}, 7: {'moles_storage_unit': 'nmol', 'volume_storage_unit': 'nL'}}.get(shard % 8)


REQUIRED_CLASSES = {'quick': ['verdict:transfer:accept', 'verdict:transfer:refuse', 'verdict:fill_to:refuse',
                              'verdict:container:refuse', 'grid'],
                    'thorough': ['verdict:transfer:accept', 'verdict:transfer:refuse', 'verdict:fill_to:refuse',
                                 'verdict:container:refuse', 'grid']}


def parse_q(text):
    v, u = text.split(' ')
    p, fam = split_unit(u)
    return float(v) * prefix_f(p), fam


class Verdict:
    def __init__(self, v, kind, fam='', margin=None):
        self.v, self.kind, self.fam, self.margin = v, kind, fam, margin


def ctor_verdict(world, op):
    cfg, ref = world.cfg, world.ref
    cap = math.inf
    if op.get('cap') is not None:
        capv, capfam = parse_q(op['cap'])
        if capfam != 'L':
            return Verdict('dontcare', 'capacity-unit')      # C14 owns non-volume capacity strings
        if capv <= 0:
            return Verdict('refuse', 'capacity-nonpositive', margin=0)
        cap = capv
    vol = 0.0
    worst = Verdict('accept', 'fits', margin=math.inf)
    grains = cfg.grain * cfg.vol_mult
    for si, q in op.get('contents') or []:
        x, fam = parse_q(q)
        sub = world.subs[si]
        if fam == 'U' and not sub.enzyme:
            return Verdict('refuse', 'U-of-non-enzyme', fam)
        if sub.factor(fam) == 0:
            return Verdict('dontcare', 'unit-without-meaning', fam)
        if x < 0:
            return Verdict('refuse', 'negative-content', fam, margin=0)
        if x == 0:
            worst = Verdict('dontcare', 'zero-content', fam)
        vol += x / sub.factor(fam) * sub.factor('L')
        grains += ref.grain_base(sub.name) * sub.factor('L') + cfg.grain * cfg.vol_mult
        if not math.isinf(cap):
            m = (cap - vol) / cap
            band = grains / cap + 1e-9
            if m < -band:
                return Verdict('refuse', 'over-capacity', fam, margin=m)
            if abs(m) <= band and worst.v == 'accept':
                worst = Verdict('dontcare', 'capacity-band', fam, margin=m)
            elif worst.v == 'accept' and m < (worst.margin if worst.margin is not None else math.inf):
                worst = Verdict('accept', 'fits', fam, margin=m)
    return worst


def fill_verdict(world, op):
    cfg, ref = world.cfg, world.ref
    x, fam = parse_q(op['q'])
    ssub = world.subs[op['solvent']]
    if fam not in ('L', 'g', 'mol'):
        return Verdict('refuse', 'unit-not-fillable', fam)
    if x < 0:
        return Verdict('refuse', 'negative-target', fam, margin=0)
    if x == 0:
        return Verdict('dontcare', 'zero-target', fam)
    if ssub.enzyme or ssub.factor(fam) == 0:
        return Verdict('dontcare', 'enzyme-solvent', fam)
    try:
        wells, _, _ = bench.well_views(world, op['obj'])
    except rsel.Invalid:
        return None
    worst = Verdict('accept', 'fits', fam, margin=math.inf)
    for _, v in wells:
        base = world.base(v)
        cur = ref.size(base, fam)
        names = list(base) + [ssub.name]
        g = sum(ref.grain_base(n) * abs(ref.subs[n].factor(fam)) for n in names) + 1e-12 * max(cur, x)
        m = (x - cur) / max(x, cur)
        band = 4 * g / max(x, cur) + 1e-9
        if m < -band:
            return Verdict('refuse', 'below-current', fam, margin=m)
        if abs(m) <= band:
            worst = Verdict('dontcare', 'equal-current-band', fam, margin=m)
            continue
        add_base = (x - cur) / ssub.factor(fam)
        newvol = ref.volume_storage(base) + add_base * ssub.factor('L') / cfg.vol_mult
        cap = v['cap']
        if not math.isinf(cap):
            mc = (cap - newvol) / cap
            gv = (sum(ref.grain_base(n) * abs(ref.subs[n].factor('L')) for n in names) / cfg.vol_mult
                  + 4 * cfg.grain) / cap + 1e-9
            if mc < -gv:
                return Verdict('refuse', 'over-capacity', fam, margin=mc)
            if abs(mc) <= gv:
                worst = Verdict('dontcare', 'capacity-band', fam, margin=mc)
                continue
            m = min(m, mc)
        if worst.v == 'accept' and m < worst.margin:
            worst = Verdict('accept', 'fits', fam, margin=m)
    return worst


def negative_arg_verdict(world, op):
    """ops owned by other properties: only the 'negative quantity is refused' clause is judged here"""
    k = op['op']
    texts = []
    if k == 'create_solution':
        for key in ('quantity', 'total_quantity'):
            v = op['kw'].get(key)
            if v is not None:
                texts += v if isinstance(v, list) else [v]
    elif k == 'create_solution_from':
        texts = [op['q']]
    for t in texts:
        try:
            x, fam = parse_q(t)
        except Exception:
            continue
        if x < 0:
            return Verdict('refuse', 'negative-quantity', fam, margin=0)
    return None


class Feasible(Monitor):
    def __init__(self, col):
        self.col = col

    def before(self, world, op):
        k = op['op']
        try:
            if k == 'transfer':
                rt = bench.RefTransfer(world, op)
                v = rt.verdict()
                if rt.q == 0 and v == 'accept':
                    v = 'dontcare'
                vd = Verdict(v, rt.margin_kind or rt.form, rt.fam, rt.margin)
                vd.form = rt.form
                return vd
            if k == 'container':
                return ctor_verdict(world, op)
            if k == 'fill_to':
                return fill_verdict(world, op)
            return negative_arg_verdict(world, op)
        except rsel.Invalid:
            return None

    def after(self, world, op, vd, out):
        col = self.col
        k = op['op']
        if k in ('slice', 'plate'):
            return
        col.case()
        case = world.case
        api = out.api or k
        fam = vd.fam if vd is not None else ''
        # (a) state invariant on everything returned
        if out.ok:
            for e in out.new_entries:
                v = e.view
                wells = [v] if v['k'] == 'c' else [w for row in v['wells'] for w in row] if v['k'] == 'p' else []
                for w in wells:
                    bad = self.invariant(world, w)
                    if bad:
                        col.report(f"state/{k}/{fam or '-'}/{bad[0]}",
                                   {'vessel': w['name'], 'what': bad[1], 'request': op.get('q') or op.get('conc')}, case)
                        break
        if vd is None:
            return
        col.label(f"verdict:{k}:{vd.v}")
        col.label(f"boundary:{k}:{vd.kind}")
        outcome = 'returned' if out.ok else type(out.exc).__name__
        if vd.v == 'refuse':
            if out.ok:
                col.report(f"refuse/{k}/{fam or '-'}/{vd.kind}/returned", {'margin': vd.margin, 'request': op.get('q')}, case)
            elif not isinstance(out.exc, ValueError):
                col.report(f"refuse/{k}/{fam or '-'}/{vd.kind}/wrong-exception:{type(out.exc).__name__}",
                           {'exc': repr(out.exc)[:200], 'request': op.get('q')}, case)
        elif vd.v == 'accept':
            if not out.ok:
                form = getattr(vd, 'form', '')
                col.report(f"accept/{k}/{form or '-'}/{fam or '-'}/raised:{type(out.exc).__name__}",
                           {'exc': repr(out.exc)[:200], 'margin': vd.margin, 'request': op.get('q')}, case)
        if vd.margin is not None and (vd.margin == 0 or abs(vd.margin) < 0.999):
            col.nontrivial_key(f"{k}|{fam}|{vd.v}|{vd.kind}|{outcome}")
            col.sample(lambda: {'op': op, 'verdict': vd.v, 'boundary': vd.kind, 'margin': vd.margin,
                                'outcome': outcome, 'history_len': len(world.history)})

    def invariant(self, world, w):
        g = 2 * world.cfg.grain
        for n, a in w['contents']:
            if not isinstance(a, (int, float)) or not math.isfinite(a):
                return ('non-finite-amount', {n: repr(a)})
            if a < -g:
                return ('negative-amount', {n: a})
        vol = w['vol']
        if not math.isfinite(vol):
            return ('non-finite-volume', vol)
        if vol < -g:
            return ('negative-volume', vol)
        if vol > w['cap'] + g + 2e-12 * w['cap'] if not math.isinf(w['cap']) else False:
            return ('over-capacity', {'vol': vol, 'cap': w['cap']})
        if not math.isinf(w['cap']):
            # what the contents really need (reference volumes), not only what the vessel reports
            base = world.base(w)
            need = world.ref.volume_storage(base)
            tol = sum(2 * world.ref.grain_base(n) * abs(world.ref.subs[n].factor('L')) for n in base) / world.cfg.vol_mult \
                + (len(base) + 2) * g + 1e-9 * w['cap']
            if need > w['cap'] + tol:
                return ('contents-exceed-capacity', {'needed': need, 'reported': vol, 'cap': w['cap']})
        return None


# ------------------------------------------------------------------------------------------------ exact-capacity grid

def grid_case(col, pp, liquid, v, unit_c, unit_q, scenario):
    """Decimal-equal capacity and request (possibly in different prefixes) must be accepted."""
    core.env.clear_caches()
    name, mw, dens = liquid
    sub = pp.Substance.liquid(name, mw, dens)
    from fractions import Fraction
    pc, pq = split_unit(unit_c)[0], split_unit(unit_q)[0]
    from refchem.model import PREFIXES
    from gen.basic import dec_text, _frac_to_decstr
    vq = Fraction(v) * PREFIXES[pc] / PREFIXES[pq]
    cap = f"{v} {unit_c}"
    q = f"{dec_text(_frac_to_decstr(vq), 0)} {unit_q}"
    case = {'grid': True, 'liquid': list(liquid), 'v': v, 'unit_c': unit_c, 'unit_q': unit_q, 'scenario': scenario}
    col.case()
    col.label('grid')
    sig = f"exact-capacity/{scenario}"
    not_emptied = None
    try:
        if scenario == 'constructor':
            c = pp.Container('x', cap, [(sub, q)])
            res = [c]
        elif scenario == 'fill_to':
            res = [pp.Container('x', cap).fill_to(sub, q)]
        elif scenario == 'whole-transfer':
            src = pp.Container('s', initial_contents=[(sub, q)])
            s2, d2 = pp.Container.transfer(src, pp.Container('d', cap), q)
            res = [d2]
            if any(abs(a) > 1e-9 for a in s2.contents.values()):
                not_emptied = list(s2.contents.values())
        elif scenario == 'plate-well':
            plate = pp.Plate('p', cap, rows=1, columns=2)
            src = pp.Container('s', initial_contents=[(sub, q), (sub, q)])
            s2, p2 = pp.Plate.transfer(src, plate, q)
            res = list(p2.wells.flatten())
    except ValueError as e:
        col.report(sig + '/refused', {'cap': cap, 'request': q, 'exc': str(e)[:120]}, case)
        return
    except Exception as e:  # noqa
        col.report(sig + f"/raised:{type(e).__name__}", {'cap': cap, 'request': q, 'exc': repr(e)[:160]}, case)
        return
    if not_emptied:
        col.report(sig + '/source-not-emptied', {'left': not_emptied}, case)
    for r in res:
        if r.volume > r.max_volume * (1 + 2e-12) + 2e-10 or abs(r.volume - r.max_volume) > 1e-6 * r.max_volume:
            col.report(sig + '/not-full', {'vol': r.volume, 'cap': r.max_volume}, case)
    col.nontrivial_key(f"grid|{scenario}|{unit_c}|{unit_q}|{v}|{name}")
    col.sample(case)


GRID_UNITS = [('uL', 'uL'), ('mL', 'mL'), ('L', 'L'), ('mL', 'L'), ('mL', 'uL'), ('uL', 'mL'), ('L', 'mL'), ('cL', 'dL')]
GRID_LIQUIDS = [('H2O', 18.0153, 1.0), ('DMSO', 78.13, 1.1004), ('triethylamine', 101.19, 0.726)]
SCENARIOS = ['constructor', 'fill_to', 'whole-transfer', 'plate-well']


def grid(col, pp, nmax):
    items = [(liq, v, uc, uq, sc) for liq in GRID_LIQUIDS for v in range(1, nmax + 1)
             for uc, uq in GRID_UNITS for sc in SCENARIOS]
    for idx, it in enumerate(items):
        if idx % col.nshards != col.shard:
            continue
        grid_case(col, pp, *it)
        col.enumerated += 1


PROFILE = {'weights': {'transfer': 6, 'container': 3, 'plate': 1, 'remove': 2, 'fill_to': 3, 'slice': 1,
                       'create_solution': 1, 'dilute': 1, 'create_solution_from': 1},
           'q_modes': ['frac'] * 5 + ['over', 'over', 'whole', 'zero', 'neg'], 'self_transfer': False,
           'ctor_faults': True}


def run(col):
    pp = core.env.bootstrap()
    prof = dict(PROFILE)
    prof['max_dim'] = 3 if col.tier == 'quick' else 4
    mon = Feasible(col)
    with col.enumeration():
        grid(col, pp, 60 if col.tier == 'quick' else 500)
    core.run_property(col, lambda: benchmachine.make_machine(col, pp, prof, mon),
                      budget(40, 1000, col.tier), tag='bench', stateful_step_count=25 if col.tier == 'quick' else 40)
    from engines import programs
    programs.run_c03(col, pp)


def replay(col, case):
    pp = core.env.bootstrap()
    if case.get('program'):
        from engines import programs
        return programs.replay_c03(col, pp, case)
    if case.get('grid'):
        return grid_case(col, pp, tuple(case['liquid']), case['v'], case['unit_c'], case['unit_q'], case['scenario'])
    benchmachine.replay_history(col, pp, case, Feasible(col))
