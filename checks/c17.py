"""C17 remove deletes exactly the selected substances.  Engine E1 monitor `remove` (direct API) + recipe programs
(amounts removed == what usage tracking reports as discarded)."""
from harness import core
from harness.core import budget
from engines import bench, benchmachine
from engines.benchmachine import Monitor
from refchem import selectors as rsel

ID = 'C17'
SHARDS = {'quick': 8, 'thorough': 16}
RULE = ("stateful histories building mixtures with substances of every kind in containers and (non-uniform) plates; "
        "remove with each present substance, an absent substance and each class constant, on containers, whole "
        "plates, slices (all selector forms, pooled slices). Result: no selected substance with non-zero amount, "
        "every other amount == unchanged, volume == refchem volume of what remains, name/capacity unchanged, "
        "unaddressed wells identical, argument unchanged. Recipe half: one- and multi-step recipes with remove "
        "steps; get_substance_used(..., destinations=[an uninvolved used object]) and get_container_flows(obj)['out'] "
        "for the remove step's stage == ledger of removed amounts of the addressed wells. non-trivial = mixture holds "
        "both selected and unselected substances; distinct by (selector kind, object kind, direct/recipe, kinds present)")
ASSUMPTIONS = ["class constants: SOLID=1, LIQUID=2, ENZYME=3 (public attributes of Substance)",
               "volume tolerance: one grain per remaining substance (remove does not round the recomputed volume)"]
def shard_config(shard, tier):
    """two of eight shards run under other documented default densities: solids/enzymes without volume (inf), and
    finite densities other than 1"""
    return {5: {'default_solid_density': float('inf'), 'default_enzyme_density': float('inf')},
            6: {'default_solid_density': 2.5, 'default_enzyme_density': 0.4},
            2: {'default_solid_density': float('inf')}}.get(shard % 8)


REQUIRED_CLASSES = {'quick': ['sel:substance', 'sel:class', 'obj:c', 'obj:p'],
                    'thorough': ['sel:substance', 'sel:class', 'sel:absent', 'obj:c', 'obj:p', 'recipe']}

CLS = {1: 'solid', 2: 'liquid', 3: 'enzyme'}


class Remove(Monitor):
    def __init__(self, col):
        self.col = col

    def before(self, world, op):
        if op['op'] != 'remove':
            return None
        try:
            wells, pi, shape = bench.well_views(world, op['obj'])
        except rsel.Invalid:
            return None
        return (wells, pi)

    def selected(self, world, op, name):
        if 's' in op['what']:
            return name == world.subs[op['what']['s']].name
        return world.ref.subs[name].kind == CLS[op['what']['cls']]

    def after(self, world, op, pre, out):
        if pre is None:
            return
        col, ref, cfg = self.col, world.ref, world.cfg
        wells, pi = pre
        col.case()
        case = world.case
        selkind = 'class' if 'cls' in op['what'] else 'substance'
        objkind = 'c' if pi is None else 'p'
        col.label(f"obj:{objkind}")
        if not out.ok:
            col.report(f"remove/{objkind}/raised:{type(out.exc).__name__}", {'exc': repr(out.exc)[:160]}, case)
            return
        rv = out.new_entries[0].view
        if pi is None:
            results = [rv]
        else:
            if rv['k'] != 'p':
                col.report('remove/result-not-a-plate', {}, case)
                return
            results = [rv['wells'][c[0]][c[1]] for c, _ in wells]
            before_plate = world.pool[pi].view
            touched = {c for c, _ in wells}
            for r, row in enumerate(before_plate['wells']):
                for c, w in enumerate(row):
                    if (r, c) not in touched and rv['wells'][r][c] != w:
                        col.report('remove/plate/unaddressed-well-changed', {'well': [r, c]}, case)
        any_sel = any_unsel = False
        for (_, b), a in zip(wells, results):
            cb, ca = bench.contents_of(b), bench.contents_of(a)
            for n, amt in cb.items():
                if self.selected(world, op, n):
                    any_sel = any_sel or amt > 0
                    if ca.get(n, 0.0) != 0:
                        col.report(f"remove/{selkind}/selected-substance-remains/{ref.subs[n].kind}",
                                   {'substance': n, 'left': ca.get(n)}, case)
                else:
                    any_unsel = any_unsel or amt > 0
                    if ca.get(n) != amt:
                        col.report(f"remove/{selkind}/unselected-substance-changed/{ref.subs[n].kind}",
                                   {'substance': n, 'before': amt, 'after': ca.get(n)}, case)
            for n in ca:
                if n not in cb and ca[n] != 0:
                    col.report(f"remove/{selkind}/substance-appeared", {'substance': n}, case)
            exp_vol = ref.volume_storage(world.base(a))
            tol = sum(ref.grain_base(n) * abs(ref.subs[n].factor('L')) for n in ca) / cfg.vol_mult + \
                (len(ca) + 1) * cfg.grain + 1e-9 * abs(exp_vol)
            if abs(a['vol'] - exp_vol) > tol:
                col.report(f"remove/{selkind}/volume-not-recomputed", {'volume': a['vol'], 'expected': exp_vol}, case)
            if a['cap'] != b['cap'] or a['name'] != b['name']:
                col.report(f"remove/{selkind}/name-or-capacity-changed", {}, case)
        absent = not any_sel
        col.label(f"sel:{'absent' if absent else selkind}")
        if any_sel and any_unsel:
            kinds = ''.join(sorted({ref.subs[n].kind[0] for _, b in wells for n, x in b['contents'] if x > 0}))
            e = world.pool[op['obj']['i']]
            sform = 'container' if e.kind == 'c' else (op['obj'].get('sel') or {'t': 'plate' if e.kind == 'p' else 'pooled'})['t']
            col.nontrivial_key(f"{selkind}|{sform}|direct|{kinds}")
            col.sample(lambda: {'op': op, 'before': [b['contents'] for _, b in wells][:2]})


PROFILE = {'weights': {'transfer': 5, 'container': 3, 'plate': 1, 'remove': 6, 'fill_to': 1, 'slice': 2,
                       'create_solution': 1},
           'q_modes': ['frac'] * 9 + ['whole'], 'self_transfer': False, 'initial_plates': 1}


def run(col):
    pp = core.env.bootstrap()
    prof = dict(PROFILE)
    prof['max_dim'] = 3 if col.tier == 'quick' else 4
    core.run_property(col, lambda: benchmachine.make_machine(col, pp, prof, Remove(col)),
                      budget(50, 800, col.tier), tag='bench', stateful_step_count=25 if col.tier == 'quick' else 40)
    try:
        from engines import programs
    except ImportError:
        return
    programs.run_c17(col, pp)


def replay(col, case):
    pp = core.env.bootstrap()
    if case.get('program'):
        from engines import programs
        return programs.replay_c17(col, pp, case)
    benchmachine.replay_history(col, pp, case, Remove(col))
