"""C02 A transfer moves exactly the requested amount as a uniform aliquot.  Engine E1, monitor `aliquot`,
plus a metamorphic chain test (split transfers == single transfer) that does not use refchem."""
from hypothesis import given, strategies as st

from harness import core
from harness.core import budget
from engines import bench, benchmachine, benchgen
from engines.benchmachine import Monitor
from gen import basic
from refchem import selectors as rsel
from refchem.model import RefCfg

ID = 'C02'
SHARDS = {'quick': 8, 'thorough': 16}
RULE = ("stateful histories as C01 with feasible sizes (fraction 0..1 of the smallest source well, in L/g/mol/U "
        "with any prefix); every returned transfer inside the feasible region is compared, well by well and "
        "substance by substance, with a sequential reference simulation (phi = q / size_unit(source well); each "
        "substance loses phi*amount; the paired destination gains exactly that; a container dispensing to n wells "
        "gives n sequential q-sized aliquots; collecting from n wells gains the n aliquots) within derived "
        "tolerance (storage grains + relative grain of the divisor). Plus metamorphic chains: k transfers of q "
        "== one transfer of k*q, and q1 then q2 == q1+q2, within k grains. non-trivial = >=2 substances incl. one "
        "whose kind differs from the unit's natural kind, 0<phi<1; distinct by (unit family, prefix, kinds, form, "
        "chain bucket)")
ASSUMPTIONS = ["size of a mixture: L = sum of volumes, g = sum of masses (enzymes via specific activity), mol = "
               "non-enzyme moles, U = enzyme activity (property statement)",
               "requests the reference finds infeasible or within the rounding band of a boundary are C03's domain",
               "overlapping same-plate regions and self-transfer are excluded (no aliquot reading)"]
REQUIRED_CLASSES = {'quick': ['form:c2c', 'form:1toN', 'form:Nto1', 'fam:L', 'fam:g', 'fam:mol', 'fam:U'],
                    'thorough': ['form:c2c', 'form:1toN', 'form:Nto1', 'form:NtoN', 'fam:L', 'fam:g', 'fam:mol',
                                 'fam:U', 'chain']}


def wells_of_result(world, r_ref, result_view, wells):
    """container views of a result, in the order of the addressed wells"""
    if result_view['k'] == 'c':
        return [result_view]
    return [result_view['wells'][c[0]][c[1]] for c, _ in wells]


class Aliquot(Monitor):
    def __init__(self, col):
        self.col = col

    def before(self, world, op):
        if op['op'] != 'transfer':
            return None
        try:
            return bench.RefTransfer(world, op)
        except rsel.Invalid:
            return None

    def after(self, world, op, rt, out):
        col = self.col
        if op['op'] != 'transfer' or rt is None:
            return
        col.case()
        if rt.expected is None:
            col.exclude('overlap/self/invalid-shape')
            return
        verdict = rt.verdict()
        col.label(f"verdict:{verdict}")
        if not out.ok or verdict != 'accept' or rt.q <= 0:
            return
        col.label(f"form:{rt.form}")
        col.label(f"fam:{rt.fam}")
        ref = world.ref
        exp_src, exp_dst = rt.expected
        got_src = wells_of_result(world, op['src'], out.new_entries[0].view, rt.src)
        got_dst = wells_of_result(world, op['dst'], out.new_entries[1].view, rt.dst)
        base_sig = f"aliquot/{rt.form}/{rt.fam}"
        judged = [('source-loss', exp_src, got_src, rt.tol_src), ('destination-gain', exp_dst, got_dst, rt.tol_dst)]
        if rt.same_plate and out.new_entries[0].view['k'] == 'p' and out.new_entries[1].view['k'] == 'p':
            # within one plate each of the two results is the whole plate afterwards: loss and gain show on both
            judged += [('source-loss-on-the-other-result', exp_src,
                        wells_of_result(world, op['src'], out.new_entries[1].view, rt.src), rt.tol_src),
                       ('destination-gain-on-the-other-result', exp_dst,
                        wells_of_result(world, op['dst'], out.new_entries[0].view, rt.dst), rt.tol_dst)]
        for tag, exp, got, tols in judged:
            for i, (e, g) in enumerate(zip(exp, got)):
                gb = world.base(g)
                for n in sorted(set(e) | set(gb)):
                    x, y = e.get(n, 0.0), gb.get(n, 0.0)
                    tol = tols[i].get(n, 0.0) + 2 * ref.grain_base(n) + 1e-12 * max(abs(x), abs(y))
                    if abs(x - y) > tol:
                        col.report(f"{base_sig}/{tag}/{ref.subs[n].kind}",
                                   {'well': i, 'substance': n, 'expected': x, 'got': y, 'tol': tol, 'q': op['q'],
                                    'eps': rt.eps}, world.case)
        # classification
        natural = {'L': 'liquid', 'g': None, 'mol': None, 'U': 'enzyme'}[rt.fam]
        for _, v in rt.src:
            kinds = {ref.subs[n].kind for n, a in v['contents'] if a > 0}
            if len([1 for n, a in v['contents'] if a > 0]) >= 2 and \
                    (('enzyme' in kinds and rt.fam in ('mol', 'L', 'g')) or ('solid' in kinds and rt.fam == 'L')
                     or (rt.fam == 'U' and kinds - {'enzyme'})):
                col.nontrivial_key(f"{rt.fam}|{rt.prefix}|{''.join(sorted(k[0] for k in kinds))}|{rt.form}")
                col.sample(lambda: {'op': op, 'source_wells': [v['contents'] for _, v in rt.src][:2],
                                    'history_len': len(world.history)})
                break


# ------------------------------------------------------------------------------------------------ chains

def chain_case(col, pp, cfg, subs_json, contents, fam_q, k, split):
    """k transfers of q vs one of k*q; and q1,q2 vs q1+q2. Amounts are decimal-exact so k*q is exact too."""
    from fractions import Fraction
    core.env.clear_caches()
    world = bench.World(pp, subs_json=subs_json)
    src = pp.Container('src', initial_contents=[(world.real[si], q) for si, q in contents])
    dst = pp.Container('dst')
    v, unit = fam_q.split(' ')
    case = {'chain': True, 'subs': subs_json, 'contents': contents, 'q': fam_q, 'k': k, 'split': split}
    col.case()
    col.label('chain')
    qf = Fraction(v)

    def dec(fr):
        return basic.dec_text(basic._frac_to_decstr(fr), 0)
    try:
        s1, d1 = src, dst
        for _ in range(k):
            s1, d1 = pp.Container.transfer(s1, d1, fam_q)
        s2, d2 = pp.Container.transfer(src, dst, f"{dec(qf * k)} {unit}")
        a = qf * Fraction(split, 100)
        s3, d3 = pp.Container.transfer(src, dst, f"{dec(a)} {unit}")
        s3, d3 = pp.Container.transfer(s3, d3, f"{dec(qf - a)} {unit}")
        s4, d4 = pp.Container.transfer(src, dst, fam_q)
    except Exception as e:  # noqa
        col.label(f"chain-raised:{type(e).__name__}")
        return
    ref = world.ref
    from refchem.model import split_unit
    fam = split_unit(unit)[1]
    for tag, x, y, kk in (('k-times', d1, d2, k), ('split', d3, d4, 2)):
        for s in set(x.contents) | set(y.contents):
            gx, gy = x.contents.get(s, 0.0), y.contents.get(s, 0.0)
            # one grain per store plus the relative grain of the divisor per step
            size = world.size(bench.view_container(src), fam)
            gsum = sum(ref.grain_base(n.name) * abs(ref.subs[n.name].factor(fam)) for n in src.contents)
            if fam == 'L':
                gsum += cfg.grain * cfg.vol_mult
            qb = float(qf) * float(basic.PREFIXES[split_unit(unit)[0]])
            req_grain = {'L': cfg.grain * cfg.vol_mult, 'mol': cfg.grain * cfg.mol_mult, 'g': cfg.grain, 'U': 0.0}[fam]
            # the request itself is rounded to internal precision (grams for 'g'): relative req_grain/q per step
            rel = 4 * kk * (gsum / max(size - qb * kk, 1e-300)) + 2 * kk * req_grain / min(qb, qb * split / 100, qb * (100 - split) / 100) + 1e-12
            tol = (2 * kk + 2) * cfg.grain + rel * max(abs(gx), abs(gy))
            if abs(gx - gy) > tol:
                col.report(f"chain/{tag}/{fam}/{ref.subs[s.name].kind}",
                           {'substance': s.name, 'a': gx, 'b': gy, 'tol': tol}, case)
    kinds = ''.join(sorted({ref.subs[s.name].kind[0] for s in src.contents}))
    if len(src.contents) >= 2:
        col.nontrivial_key(f"chain|{fam}|{kinds}|{min(k, 16).bit_length()}")


@st.composite
def chain_inputs(draw, cfg):
    subs = draw(basic.substance_pool(cfg, max_extra=1))
    n = draw(st.integers(1, 4))
    idx = draw(st.lists(st.integers(0, len(subs) - 1), min_size=n, max_size=n, unique=True))
    contents = []
    for si in idx:
        sub = subs[si]
        fam = draw(st.sampled_from(['U', 'g'] if sub.enzyme else ['L', 'g', 'mol']))
        x = {'U': 2.0, 'g': 0.05, 'L': 5e-3, 'mol': 1e-3}[fam] * draw(st.floats(0.1, 1.0))
        if sub.enzyme and fam == 'g':
            x = min(x, 2.0 / sub.sa)
        contents.append([si, basic.render_q(x, fam, draw(st.sampled_from(['', 'm', 'u'])), 0, 6).text])
    # size of the mixture in each family via the reference
    from refchem.model import Ref
    ref = Ref(cfg, subs)
    base = {}
    from fractions import Fraction
    for si, q in contents:
        v, unit = q.split(' ')
        from refchem.model import split_unit, prefix_f
        p, fam = split_unit(unit)
        sub = subs[si]
        base[sub.name] = float(Fraction(v)) * prefix_f(p) / sub.factor(fam)
    fams = [f for f in ('L', 'g', 'mol', 'U') if ref.size(base, f) > 0]
    fam = draw(st.sampled_from(fams))
    k = draw(st.integers(2, 30))
    total_frac = draw(st.floats(0.05, 0.9))
    q = ref.size(base, fam) * total_frac / k
    qt = basic.render_q(q, fam, draw(st.sampled_from(['', 'm', 'u', 'n', 'c'])), 0, 5).text
    return [s.to_json() for s in subs], contents, qt, k, draw(st.integers(1, 99))


PROFILE = {'weights': {'transfer': 7, 'container': 2, 'plate': 1, 'remove': 1, 'fill_to': 1, 'slice': 1},
           'q_modes': ['frac'] * 9 + ['whole'], 'self_transfer': False, 'initial_slices': 1}


def run(col):
    pp = core.env.bootstrap()
    cfg = RefCfg()
    prof = dict(PROFILE)
    prof['max_dim'] = 4 if col.tier == 'quick' else (4 if col.shard % 4 else 8)
    mon = Aliquot(col)
    core.run_property(col, lambda: benchmachine.make_machine(col, pp, prof, mon),
                      budget(60, 800, col.tier), tag='bench', stateful_step_count=25 if col.tier == 'quick' else 40)

    def t_chain():
        @given(chain_inputs(cfg))
        def test(inp):
            chain_case(col, pp, cfg, *inp)
        return test
    core.run_property(col, t_chain, budget(150, 3000, col.tier), tag='chain')


def replay(col, case):
    pp = core.env.bootstrap()
    if case.get('chain'):
        return chain_case(col, pp, RefCfg(), case['subs'], case['contents'], case['q'], case['k'], case['split'])
    benchmachine.replay_history(col, pp, case, Aliquot(col))
