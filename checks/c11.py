"""C11 dilute and fill_to reach their target by adding only solvent.  Engine E1 rules + refchem oracle."""
import math

from harness import core
from harness.core import budget
from engines import bench, benchmachine
from engines.benchmachine import Monitor
from refchem import parse as rparse
from refchem.model import split_unit, prefix_f

ID = 'C11'
SHARDS = {'quick': 8, 'thorough': 16}
RULE = ("stateful histories that build binary and multi-component containers (create_solution, transfers, "
        "fills, removes; enzymes as bystanders; solvent present or absent), then dilute (target = current x factor "
        "in (0,1.5], any concentration spelling / unit pair) and fill_to (target on either side of current and of "
        "the capacity, in L / g / mol). Returned result must differ from the argument only by an increase of the "
        "named solvent; refchem concentration of the solute in the requested unit == target (dilute) / refchem size "
        "in the requested unit == target (fill_to) within derived tolerance; target clearly above current "
        "concentration / below current quantity / beyond capacity => ValueError. non-trivial = >=3 components, or "
        "solvent not the liquid already present, or enzyme present, or non-molar unit; distinct by (op, unit pair, "
        "composition class, capacity-limited, outcome)")
ASSUMPTIONS = ["concentration = solute amount / size of the whole mixture in the denominator unit (read-back definition)",
               "stated concentrations are rounded to internal_precision decimals of the base-unit ratio by the parser "
               "(documented): the target is that rounded value; ratios below 1e-7 are not generated",
               "enzyme solutes are not generated (declared unsupported); non-enzyme solvents only"]
def shard_config(shard, tier):
    """three of eight shards run under other documented storage units (prefixes that differ from each other too)"""
    return {5: {'moles_storage_unit': 'mmol', 'volume_storage_unit': 'mL'}, 6: {'volume_storage_unit': 'mL'},
            7: {'moles_storage_unit': 'nmol'}}.get(shard % 8)


REQUIRED_CLASSES = {'quick': ['dilute:returned', 'fill_to:returned', 'dilute:refused', 'fill_to:refused',
                              'fill_to:plate-returned'],
                    'thorough': ['dilute:returned', 'fill_to:returned', 'dilute:refused', 'fill_to:refused',
                                 'class:multi', 'class:enzyme-bystander']}


def composition_class(world, v):
    pos = [n for n, a in v['contents'] if a > 0]
    kinds = {world.ref.subs[n].kind for n in pos}
    out = []
    if len(pos) >= 3:
        out.append('multi')
    elif len(pos) == 2:
        out.append('binary')
    else:
        out.append('single')
    if 'enzyme' in kinds:
        out.append('enzyme-bystander')
    return out


class Target(Monitor):
    def __init__(self, col):
        self.col = col

    def before(self, world, op):
        if op['op'] not in ('dilute', 'fill_to'):
            return None
        if op['op'] == 'fill_to':
            e = world.pool[op['obj']['i']]
            if e.kind != 'c':
                # a plate or slice: every addressed well must reach the target by solvent alone (that the other wells
                # stay as they are is C07's).  Addressed wells with their contents before the call:
                return [(rc, v) for rc, v in bench.well_views(world, op['obj'])[0]]
        return True

    def after(self, world, op, pre, out):
        if pre is None:
            return
        if op['op'] == 'dilute':
            self.dilute(world, op, out)
        elif isinstance(pre, list):
            self.fill_plate(world, op, pre, out)
        else:
            self.fill(world, op, out)

    def only_solvent_changed(self, world, before, after, solvent_name, tag, case):
        cb, ca = bench.contents_of(before), bench.contents_of(after)
        for n in set(cb) | set(ca):
            if n == solvent_name:
                if ca.get(n, 0.0) < cb.get(n, 0.0) - 2 * world.cfg.grain:
                    self.col.report(f"{tag}/solvent-decreased", {'before': cb.get(n, 0.0), 'after': ca.get(n, 0.0)}, case)
            elif ca.get(n, 0.0) != cb.get(n, 0.0):
                self.col.report(f"{tag}/other-substance-changed/{world.ref.subs[n].kind}",
                                {'substance': n, 'before': cb.get(n), 'after': ca.get(n)}, case)
        if after['cap'] != before['cap']:
            self.col.report(f"{tag}/capacity-changed", {}, case)

    # ------------------------------------------------------------------------------------------------ dilute
    def dilute(self, world, op, out):
        col, ref, cfg = self.col, world.ref, world.cfg
        col.case()
        case = world.case
        before = world.pool[op['obj']].view
        base = world.base(before)
        solute, solvent = world.subs[op['solute']], world.subs[op['solvent']]
        try:
            exact, num, den = rparse.concentration(op['conc'], cfg.wv)
        except rparse.Unreadable:
            return
        target = round(float(exact), cfg.P)
        if target <= 0 or solute.enzyme or solvent.enzyme or solute.name == solvent.name:
            col.exclude('dilute outside domain')
            return
        cur = ref.conc(base, solute.name, num, den)
        classes = composition_class(world, before)
        for c in classes:
            col.label(f"class:{c}")
        names = list(base) + [solvent.name]
        size_den = ref.size(base, den)
        eps = sum(ref.grain_base(n) * abs(ref.subs[n].factor(den)) for n in names) / size_den if size_den > 0 else 0
        eps += ref.grain_base(solute.name) / base[solute.name] if base.get(solute.name) else 0
        # the parser rounds the stated ratio to internal precision in base units: half a grain relative to the target,
        # unless the stated value has at most P decimals anyway (then parsing is exact; trace-level targets stay sharp)
        if (exact * 10 ** cfg.P).denominator != 1:
            eps += 0.5 * cfg.grain / target
        eps += 1e-9
        # reference: solvent amount s (base units) with N / (D0 + s*d) = target
        N = base.get(solute.name, 0.0) * solute.factor(num)
        d = solvent.factor(den)
        m = (cur - target) / max(cur, target)
        # the library treats concentrations that agree to six significant digits as equal (returns a copy):
        # inside that band either outcome is accepted
        band = max(8 * eps, 2e-6)
        verdict = 'accept' if m > band else 'refuse' if m < -band else 'band'
        reachable = True
        if verdict == 'accept':
            if d <= 0:
                reachable = False
            else:
                s = (N / target - size_den) / d
                newvol = ref.volume_storage(base) + s * solvent.factor('L') / cfg.vol_mult
                cap = before['cap']
                if not math.isinf(cap):
                    mc = (cap - newvol) / cap
                    if mc < -1e-6:
                        verdict = 'refuse-capacity'
                    elif mc < 1e-6:
                        verdict = 'band'
        key = f"dilute|{num}/{den}|{'+'.join(classes)}|{verdict}|{'ok' if out.ok else type(out.exc).__name__}"
        nontrivial = ('multi' in classes or 'enzyme-bystander' in classes or (num, den) != ('mol', 'L')
                      or base.get(solvent.name, 0) == 0)
        if out.ok:
            col.label('dilute:returned')
            after = out.new_entries[0].view
            self.only_solvent_changed(world, before, after, solvent.name, 'dilute', case)
            if verdict in ('refuse', 'refuse-capacity'):
                col.report(f"dilute/{num}-per-{den}/{verdict}/returned", {'current': cur, 'target': target}, case)
            elif verdict == 'accept' and reachable:
                got = ref.conc(world.base(after), solute.name, num, den)
                if abs(got - target) > 8 * eps * target:
                    col.report(f"dilute/{num}-per-{den}/{'+'.join(classes)}/misses-target",
                               {'target': target, 'got': got, 'current': cur, 'conc': op['conc'],
                                'solvent_present': base.get(solvent.name, 0) > 0}, case)
            if verdict == 'accept' and reachable:
                self.as_recipe_step(world, op, out, case, f"{num}-per-{den}")
        else:
            col.label('dilute:refused')
            if not isinstance(out.exc, ValueError):
                col.report(f"dilute/raised:{type(out.exc).__name__}", {'exc': repr(out.exc)[:160]}, case)
            elif verdict == 'accept' and reachable:
                col.report(f"dilute/{num}-per-{den}/{'+'.join(classes)}/feasible-refused",
                           {'target': target, 'current': cur, 'exc': str(out.exc)[:100], 'conc': op['conc'],
                            'solvent_present': base.get(solvent.name, 0) > 0}, case)
        if nontrivial:
            col.nontrivial_key(key)
            col.sample(lambda: {'op': op, 'contents': before['contents'], 'verdict': verdict, 'current': cur,
                                'target': target})

    def as_recipe_step(self, world, op, out, case, units):
        """the same dilution as the only step of a recipe reaches the same container (Recipe.dilute validates the target
        on its own before bake does the work)"""
        from engines import programs
        pp, col = world.pp, self.col
        cont = world.pool[op['obj']].obj
        exc = res = None
        try:
            r = pp.Recipe()
            r.uses(cont)
            r.dilute(cont, world.real[op['solute']], op['conc'], world.real[op['solvent']], op.get('name'))
            res = r.bake()
        except Exception as e:  # noqa
            exc = e
        col.label('dilute:also-as-recipe-step')
        if exc is not None:
            col.report(f"dilute/{units}/recipe-step-refused-although-direct-call-returns:{type(exc).__name__}",
                       {'exc': repr(exc)[:160], 'conc': op['conc']}, case)
        elif len(res) != 1 or not programs.same_container(world, bench.view_container(list(res.values())[0]), out.new_entries[0].view):
            col.report(f"dilute/{units}/recipe-step-differs-from-direct-call", {'conc': op['conc']}, case)

    # ------------------------------------------------------------------------------------------------ fill_to
    @staticmethod
    def fill_verdict(world, before, solvent, x, fam):
        """(verdict, eps, current size) of filling the vessel `before` to x of family fam with solvent"""
        ref, cfg = world.ref, world.cfg
        base = world.base(before)
        cur = ref.size(base, fam)
        names = list(base) + [solvent.name]
        g = sum(ref.grain_base(n) * abs(ref.subs[n].factor(fam)) for n in names)
        eps = 4 * g / max(x, cur) + 1e-9
        m = (x - cur) / max(x, cur)
        verdict = 'accept' if m > eps else 'refuse' if m < -eps else 'band'
        if verdict == 'accept' and not math.isinf(before['cap']):
            s = (x - cur) / solvent.factor(fam)
            newvol = ref.volume_storage(base) + s * solvent.factor('L') / cfg.vol_mult
            mc = (before['cap'] - newvol) / before['cap']
            if mc < -1e-6:
                verdict = 'refuse-capacity'
            elif mc < 1e-6:
                verdict = 'band'
        return verdict, eps, cur

    def fill_plate(self, world, op, wells, out):
        """Plate.fill_to / PlateSlicer.fill_to: the statement of the property for every addressed well"""
        col, ref = self.col, world.ref
        col.case()
        case = world.case
        solvent = world.subs[op['solvent']]
        try:
            exact, fam = rparse.quantity(op['q'])
        except rparse.Unreadable:
            return
        x = float(exact)
        if fam not in ('L', 'g', 'mol') or solvent.enzyme or x <= 0 or not wells:
            col.exclude('fill_to outside domain')
            return
        verdicts = [self.fill_verdict(world, v, solvent, x, fam) for _, v in wells]
        kinds = {v for v, _, _ in verdicts}
        overall = 'refuse' if kinds & {'refuse', 'refuse-capacity'} else 'accept' if kinds == {'accept'} else 'band'
        distinct_mix = len({tuple(sorted(n for n, a in v['contents'] if a > 0)) for _, v in wells}) > 1
        col.label(f"plate-fill:{overall}")
        if distinct_mix:
            col.label('plate-fill:wells-hold-different-mixtures')
        if out.ok:
            col.label('fill_to:plate-returned')
            after = out.new_entries[0].view
            for ((r, c), before), (verdict, eps, cur) in zip(wells, verdicts):
                a = after['wells'][r][c]
                self.only_solvent_changed(world, before, a, solvent.name, 'fill_to/plate', case)
                if verdict in ('refuse', 'refuse-capacity'):
                    col.report(f"fill_to/plate/{fam}/{verdict}/returned", {'current': cur, 'target': x, 'well': [r, c]}, case)
                elif verdict == 'accept':
                    got = ref.size(world.base(a), fam)
                    if abs(got - x) > eps * x:
                        col.report(f"fill_to/plate/{fam}/misses-target", {'target': x, 'got': got, 'current': cur, 'well': [r, c]}, case)
        else:
            col.label('fill_to:plate-refused')
            if not isinstance(out.exc, ValueError):
                col.report(f"fill_to/plate/raised:{type(out.exc).__name__}", {'exc': repr(out.exc)[:160]}, case)
            elif overall == 'accept':
                col.report(f"fill_to/plate/{fam}/feasible-refused", {'target': x, 'exc': str(out.exc)[:100]}, case)
        if fam != 'L' or distinct_mix:
            col.nontrivial_key(f"fill_to|plate|{fam}|{overall}|{distinct_mix}|{'ok' if out.ok else 'refused'}")

    def fill(self, world, op, out):
        col, ref, cfg = self.col, world.ref, world.cfg
        col.case()
        case = world.case
        before = world.pool[op['obj']['i']].view
        base = world.base(before)
        solvent = world.subs[op['solvent']]
        try:
            exact, fam = rparse.quantity(op['q'])
        except rparse.Unreadable:
            return
        x = float(exact)
        if fam not in ('L', 'g', 'mol') or solvent.enzyme or x <= 0:
            col.exclude('fill_to outside domain')
            return
        cur = ref.size(base, fam)
        classes = composition_class(world, before)
        for c in classes:
            col.label(f"class:{c}")
        names = list(base) + [solvent.name]
        g = sum(ref.grain_base(n) * abs(ref.subs[n].factor(fam)) for n in names)
        eps = 4 * g / max(x, cur) + 1e-9
        m = (x - cur) / max(x, cur)
        verdict = 'accept' if m > eps else 'refuse' if m < -eps else 'band'
        if verdict == 'accept' and not math.isinf(before['cap']):
            s = (x - cur) / solvent.factor(fam)
            newvol = ref.volume_storage(base) + s * solvent.factor('L') / cfg.vol_mult
            mc = (before['cap'] - newvol) / before['cap']
            if mc < -1e-6:
                verdict = 'refuse-capacity'
            elif mc < 1e-6:
                verdict = 'band'
        limited = not math.isinf(before['cap'])
        if out.ok:
            col.label('fill_to:returned')
            after = out.new_entries[0].view
            self.only_solvent_changed(world, before, after, solvent.name, 'fill_to', case)
            if verdict in ('refuse', 'refuse-capacity'):
                col.report(f"fill_to/{fam}/{verdict}/returned", {'current': cur, 'target': x}, case)
            elif verdict == 'accept':
                got = ref.size(world.base(after), fam)
                if abs(got - x) > eps * x:
                    col.report(f"fill_to/{fam}/{'+'.join(classes)}/misses-target", {'target': x, 'got': got, 'current': cur}, case)
        else:
            col.label('fill_to:refused')
            if not isinstance(out.exc, ValueError):
                col.report(f"fill_to/raised:{type(out.exc).__name__}", {'exc': repr(out.exc)[:160]}, case)
            elif verdict == 'accept':
                col.report(f"fill_to/{fam}/feasible-refused", {'target': x, 'current': cur, 'exc': str(out.exc)[:100]}, case)
        if 'multi' in classes or 'enzyme-bystander' in classes or fam != 'L' or base.get(solvent.name, 0) == 0:
            col.nontrivial_key(f"fill_to|{fam}|{'+'.join(classes)}|{verdict}|{limited}|{'ok' if out.ok else 'refused'}")
            col.sample(lambda: {'op': op, 'contents': before['contents'], 'verdict': verdict, 'current': cur, 'target': x})


PROFILE = {'weights': {'transfer': 4, 'container': 3, 'plate': 1, 'remove': 1, 'fill_to': 5, 'slice': 1,
                       'create_solution': 3, 'dilute': 6, 'create_solution_from': 1},
           'q_modes': ['frac'] * 9 + ['whole'], 'self_transfer': False, 'initial_plates': 1,
           'fill_modes': ['fit'] * 6 + ['below', 'below', 'over', 'over'],
           'dilute_modes': ['lower'] * 6 + ['higher', 'higher', 'equal', 'slightly']}


def run(col):
    pp = core.env.bootstrap()
    core.run_property(col, lambda: benchmachine.make_machine(col, pp, dict(PROFILE), Target(col)),
                      budget(60, 1000, col.tier), tag='bench', stateful_step_count=25 if col.tier == 'quick' else 40)


def replay(col, case):
    pp = core.env.bootstrap()
    benchmachine.replay_history(col, pp, case, Target(col))
