"""C19 Instructions and human-readable quantities state the true amounts.
Engine E1 monitor `text` (container instructions), E3-style grid for the two rescaling helpers, E2 for recipe steps."""
import math
import re

from hypothesis import given, strategies as st

from harness import core
from harness.core import budget
from engines import bench, benchmachine
from engines.benchmachine import Monitor
from refchem import parse as rparse
from refchem import selectors as rsel
from refchem.model import RefCfg, Sub, fill_defaults, split_unit, prefix_f, PREFIX_LIST
from gen import basic

ID = 'C19'
SHARDS = {'quick': 8, 'thorough': 16}
RULE = ("(a) helpers: get_human_readable_unit(v, unit) over v log-uniform 1e-15..1e9 x every prefixed unit, and "
        "convert_from_storage_to_standard_format(substance|container, q) over all kinds: returned value x SI "
        "factor of returned unit == physical amount of the input (relative 1e-9, or half a display unit when the "
        "helper rounds). (b) stateful histories over magnitudes 1 pL..L and all substance kinds (solids-only and "
        "enzyme-only sources included): the instruction text added by each operation (constructor 'Add ...', "
        "capacity text, 'Transfer ... of ... to ...', 'Dilute with', 'Fill with', create_solution with substance or "
        "container solvent, create_solution_from) is parsed back into (amount, unit, name) and compared with the "
        "refchem delta of that operation in the displayed unit: |shown - true| <= half a unit of the displayed "
        "precision (+ rounding grains); names must be the actual names. (c) recipe step instructions for dilute / "
        "fill_to (container and per-well plate form) likewise. non-trivial = amount whose natural prefix differs "
        "from the unit it was given in, or a non-liquid source; distinct by (template, substance kinds, decade)")
ASSUMPTIONS = ["names are restricted to [A-Za-z0-9 _-] so that the text parses unambiguously",
               "displayed precision = config.precisions[unit] (default 3) as documented",
               "negative inputs of the rescaling helpers are out of scope (amounts are non-negative)"]
REQUIRED_CLASSES = {'quick': ['tmpl:ctor', 'tmpl:transfer', 'tmpl:fill', 'tmpl:dilute', 'helper:hru', 'helper:std'],
                    'thorough': ['tmpl:ctor', 'tmpl:transfer', 'tmpl:fill', 'tmpl:dilute', 'tmpl:solution',
                                 'tmpl:solution_from', 'helper:hru', 'helper:std']}

def shard_config(shard, tier):
    """a quarter of the shards run under other storage units: the texts must state the same physical amounts"""
    return {3: {'moles_storage_unit': 'mmol', 'volume_storage_unit': 'mL'},
            1: {'moles_storage_unit': 'mol', 'volume_storage_unit': 'L', 'internal_precision': 14}}.get(shard % 4)


NUM = r'[-+]?(?:\d+\.?\d*|\.\d+)(?:[eE][-+]?\d+)?|inf|nan'


def shown_ok(cfg, shown, unit, true_base, extra_abs=0.0):
    """is `shown unit` the true amount (in family base units) to the displayed precision?"""
    try:
        p, fam = split_unit(unit)
    except ValueError:
        return False, None
    prec = cfg.precision(unit)
    # half a unit of the displayed precision, plus one grain of internal precision in the base unit (amounts are
    # rounded to internal precision in L / g before they are rescaled for display)
    tol = (0.5 * 10 ** -prec) * 1.0000001 + 1e-9 * abs(shown) + (extra_abs + 1.01 * cfg.grain) / prefix_f(p)
    true_shown = true_base / prefix_f(p)
    return abs(shown - true_shown) <= tol, true_shown


def decade(x):
    return int(math.floor(math.log10(abs(x)))) if x else -99


class Text(Monitor):
    def __init__(self, col):
        self.col = col

    def before(self, world, op):
        if op['op'] == 'transfer':
            try:
                return bench.RefTransfer(world, op)
            except rsel.Invalid:
                return None
        return None

    def amount_check(self, world, tmpl, shown, unit, name, true_by_fam, case, kinds, extra=None):
        """true_by_fam: {'L': x, 'g': y, ...} true amount in each family (base units); the text may choose any."""
        col, cfg = self.col, world.cfg
        try:
            p, fam = split_unit(unit)
        except ValueError:
            col.report(f"{tmpl}/unparsable-unit", {'unit': unit, 'name': name}, case)
            return
        if fam not in true_by_fam:
            col.report(f"{tmpl}/unexpected-unit-family/{fam}", {'unit': unit, 'name': name}, case)
            return
        true = true_by_fam[fam]
        ok, true_shown = shown_ok(cfg, shown, unit, true, extra_abs=(extra or {}).get(fam, 0.0))
        if not ok:
            col.report(f"{tmpl}/wrong-amount/{fam}/{kinds}", {'shown': f"{shown} {unit}", 'true_in_shown_unit': true_shown,
                                                               'name': name}, case)
        # natural prefix differs from how it was given / non-liquid
        col.nontrivial_key(f"{tmpl}|{kinds}|{unit}|{decade(true)}")

    def after(self, world, op, rt, out):
        col, ref, cfg = self.col, world.ref, world.cfg
        k = op['op']
        if not out.ok or k in ('slice', 'plate', 'observe'):
            return
        case = world.case
        if k == 'container':
            col.case()
            col.label('tmpl:ctor')
            v = out.new_entries[0].view
            text = v['instr'] or ''
            base = world.base(v)
            if v['contents']:
                if not text.startswith('Add '):
                    col.report('ctor/missing-add-text', {'text': text[:120]}, case)
                    return
                for n, stored in bench.contents_of(v).items():
                    m = re.search(rf'({NUM}) (\S+) of {re.escape(n)}(?:,| to )', text)
                    if not m:
                        col.report('ctor/substance-not-named', {'substance': n, 'text': text[:160]}, case)
                        continue
                    sp = ref.subs[n]
                    true = {f: base[n] * sp.factor(f) for f in ('L', 'g', 'U', 'mol') if sp.factor(f) > 0}
                    self.amount_check(world, 'ctor', float(m.group(1)), m.group(2), n, true, case, sp.kind)
            if not math.isinf(v['cap']):
                m = re.search(rf'(?:to a|Create a) ({NUM}) (\S+) container\.', text)
                if not m:
                    col.report('ctor/capacity-not-stated', {'text': text[-80:]}, case)
                else:
                    self.amount_check(world, 'ctor-capacity', float(m.group(1)), m.group(2), 'capacity',
                                      {'L': v['cap'] * cfg.vol_mult}, case, 'cap')
            col.sample(lambda: {'op': op, 'text': text})
            return
        if k == 'transfer' and rt is not None and rt.expected is not None and rt.q > 0:
            self.transfer_text(world, op, rt, out, case)
            return
        if k in ('fill_to', 'dilute'):
            tgt = op['obj'] if k == 'fill_to' else {'i': op['obj']}
            try:
                wells, pi, shape = bench.well_views(world, tgt)
            except rsel.Invalid:
                return
            rv = out.new_entries[0].view
            results = [rv] if pi is None else [rv['wells'][c[0]][c[1]] for c, _ in wells]
            solvent = world.subs[op['solvent']]
            word = 'Fill with' if k == 'fill_to' else 'Dilute with'
            col.label('tmpl:fill' if k == 'fill_to' else 'tmpl:dilute')
            for (_, b), a in zip(wells, results):
                col.case()
                new = (a['instr'] or '')[len(b['instr'] or ''):]
                added = world.base(a).get(solvent.name, 0.0) - world.base(b).get(solvent.name, 0.0)
                if k == 'dilute' and new == '' and abs(added) <= 4 * ref.grain_base(solvent.name):
                    continue     # already at the target: unchanged copy, nothing to say
                m = re.search(rf'{word} ({NUM}) (\S+) of {re.escape(solvent.name)}\.', new)
                if not m:
                    col.report(f"{k}/line-missing-or-wrong-name", {'new_text': new[:120], 'solvent': solvent.name}, case)
                    continue
                true = {f: added * solvent.factor(f) for f in ('L', 'g', 'mol') if solvent.factor(f) > 0}
                extra = {f: 4 * ref.grain_base(solvent.name) * solvent.factor(f) for f in true}
                self.amount_check(world, k, float(m.group(1)), m.group(2), solvent.name, true, case, solvent.kind, extra)
            col.sample(lambda: {'op': op, 'new_text': (results[0]['instr'] or '')[-100:]})
            return
        if k == 'create_solution':
            col.case()
            col.label('tmpl:solution')
            v = out.new_entries[-1].view
            text = v['instr'] or ''
            base = world.base(v)
            solute_names = [world.subs[i].name for i in op['solutes']]
            if 's' in op['solvent']:
                names = solute_names + [world.subs[op['solvent']['s']].name]
                for n in names:
                    m = re.search(rf'({NUM}) (\S+) of {re.escape(n)}(?:,| to )', text)
                    if not m:
                        col.report('create_solution/substance-not-named', {'substance': n, 'text': text[:160]}, case)
                        continue
                    sp = ref.subs[n]
                    true = {f: base.get(n, 0.0) * sp.factor(f) for f in ('L', 'g', 'U', 'mol') if sp.factor(f) > 0}
                    self.amount_check(world, 'create_solution', float(m.group(1)), m.group(2), n, true, case, sp.kind)
            else:
                src_before = world.pool[op['solvent']['c']].view
                came_with_solvent = {n: world.base(src_before).get(n, 0.0) - world.base(out.new_entries[0].view).get(n, 0.0)
                                     for n in solute_names}
                if any(x > 0 for x in came_with_solvent.values()):
                    col.label('solution:solvent-container-holds-a-solute')
                for n in solute_names:
                    m = re.search(rf'({NUM}) (\S+) of {re.escape(n)}(?:,| to )', text)
                    if not m:
                        col.report('create_solution/substance-not-named', {'substance': n, 'text': text[:160]}, case)
                        continue
                    sp = ref.subs[n]
                    # what is ADDED: what the solution holds minus what came in with the aliquot of the solvent container
                    added = base.get(n, 0.0) - max(came_with_solvent[n], 0.0)
                    true = {f: added * sp.factor(f) for f in ('L', 'g', 'U', 'mol') if sp.factor(f) > 0}
                    self.amount_check(world, 'create_solution', float(m.group(1)), m.group(2), n, true, case, sp.kind)
                m = re.search(rf' to ({NUM}) (\S+) of {re.escape(src_before["name"])}\.', text)
                if not m:
                    col.report('create_solution/solvent-container-not-named', {'text': text[-120:]}, case)
                else:
                    after_src = out.new_entries[0].view
                    taken = {f: world.size(src_before, f) - world.size(after_src, f) for f in ('L', 'g')}
                    names = [n for n, _ in src_before['contents']]
                    extra = {f: sum(4 * ref.grain_base(n) * abs(ref.subs[n].factor(f)) for n in names) for f in taken}
                    self.amount_check(world, 'create_solution/solvent-container', float(m.group(1)), m.group(2),
                                      src_before['name'], taken, case, 'mix', extra)
            col.sample(lambda: {'op': op, 'text': text})
            return
        if k == 'create_solution_from':
            col.case()
            col.label('tmpl:solution_from')
            src_before = world.pool[op['src']].view
            src_after = out.new_entries[0].view
            sol = out.new_entries[-1].view
            text = sol['instr'] or ''
            solvent = world.subs[op['solvent']['s']] if 's' in op['solvent'] else None
            sname = solvent.name if solvent else world.pool[op['solvent']['c']].view['name']
            m = re.search(rf'^Add ({NUM}) (\S+) of {re.escape(sname)} to ({NUM}) (\S+) of {re.escape(src_before["name"])}\.$', text)
            if not m:
                col.report('create_solution_from/text-not-of-documented-form', {'text': text[:160]}, case)
                return
            taken = {f: world.size(src_before, f) - world.size(src_after, f) for f in ('L', 'g')}
            names = [n for n, _ in src_before['contents']]
            extra = {f: sum(4 * ref.grain_base(n) * abs(ref.subs[n].factor(f)) for n in names) for f in taken}
            self.amount_check(world, 'create_solution_from/stock', float(m.group(3)), m.group(4), src_before['name'],
                              taken, case, 'mix', extra)
            if solvent is not None:
                sb = world.base(sol)
                # solvent added = solution's solvent minus the part that came with the stock aliquot
                frac = taken['L'] / world.size(src_before, 'L') if world.size(src_before, 'L') > 0 else 0.0
                added = sb.get(solvent.name, 0.0) - frac * world.base(src_before).get(solvent.name, 0.0)
                true = {f: added * solvent.factor(f) for f in ('L', 'g')}
                extra = {f: 8 * ref.grain_base(solvent.name) * solvent.factor(f) + 1e-9 * abs(true[f]) for f in true}
                self.amount_check(world, 'create_solution_from/solvent', float(m.group(1)), m.group(2), solvent.name,
                                  true, case, solvent.kind, extra)
            col.sample(lambda: {'op': op, 'text': text})

    def transfer_text(self, world, op, rt, out, case):
        col, ref = self.col, world.ref
        col.label('tmpl:transfer')
        from checks.c02 import wells_of_result
        got_dst = wells_of_result(world, op['dst'], out.new_entries[1].view, rt.dst)
        src_plate_name = world.pool[rt.src_plate].view['name'] if rt.src_plate is not None else None
        # walk the pairs sequentially to know each aliquot (reference simulation state)
        src_state = [dict(world.base(v)) for _, v in rt.src]
        lines_seen = {}
        for i, j in rt.pairs:
            col.case()
            a = src_state[i]
            size = ref.size(a, rt.fam)
            phi = rt.q / size if size > 0 else 0.0
            aliquot = {f: phi * ref.size(a, f) for f in ('L', 'g')}
            kinds = ''.join(sorted({ref.subs[n].kind[0] for n, x in a.items() if x > 0}))
            for n in list(a):
                a[n] -= phi * a[n]
            dv_before = rt.dst[j][1]
            dv_after = got_dst[j]
            new = (dv_after['instr'] or '')[len(dv_before['instr'] or ''):]
            lines = [ln for ln in new.split('\n') if ln.startswith('Transfer ')]
            idx = lines_seen.get(j, 0)
            lines_seen[j] = idx + 1
            if idx >= len(lines):
                col.report(f"transfer/{rt.form}/line-missing", {'new_text': new[:160]}, case)
                continue
            line = lines[idx]
            m = re.match(rf'^Transfer ({NUM}) (\S+) of (.+) to (.+)$', line)
            if not m:
                col.report(f"transfer/{rt.form}/line-not-of-documented-form", {'line': line[:160]}, case)
                continue
            sname = rt.src[i][1]['name']
            label = m.group(3)
            if not (label == sname or (src_plate_name and label == f"{src_plate_name} {sname}")):
                col.report(f"transfer/{rt.form}/wrong-source-name", {'line': line[:160], 'source': sname}, case)
            if m.group(4) != dv_before['name']:
                col.report(f"transfer/{rt.form}/wrong-destination-name", {'line': line[:160], 'dest': dv_before['name']}, case)
            extra = {f: rt.eps * 8 * abs(aliquot[f]) + sum(4 * ref.grain_base(n) * abs(ref.subs[n].factor(f)) for n in a)
                     for f in aliquot}
            liquid = 'l' in kinds
            self.amount_check(world, f"transfer{'' if liquid else '/no-liquid-source'}", float(m.group(1)), m.group(2),
                              sname, aliquot, case, kinds, extra)
        col.sample(lambda: {'op': op, 'line': (got_dst[0]['instr'] or '').split('\n')[-1]})


# ------------------------------------------------------------------------------------------------ helpers

def helper_hru(col, pp, value, unit):
    """get_human_readable_unit(value, unit): the physical amount must not change."""
    col.case()
    col.label('helper:hru')
    case = {'helper': 'hru', 'value': value, 'unit': unit}
    p, fam = split_unit(unit)
    try:
        v2, u2 = pp.Unit.get_human_readable_unit(value, unit)
        p2, fam2 = split_unit(u2)
    except Exception as e:  # noqa
        col.report(f"get_human_readable_unit/raised:{type(e).__name__}", {'exc': repr(e)[:120]}, case)
        return
    phys, phys2 = value * prefix_f(p), v2 * prefix_f(p2)
    if fam2 != fam:
        col.report('get_human_readable_unit/unit-family-changed', {'in': unit, 'out': u2}, case)
    elif abs(phys2 - phys) > 1e-9 * abs(phys):
        why = 'incoming-prefix-ignored' if p else ('below-micro' if phys < 1e-6 else 'other')
        col.report(f"get_human_readable_unit/amount-changed/{why}", {'in': f"{value} {unit}", 'out': f"{v2} {u2}"}, case)
    col.nontrivial_key(f"hru|{unit}|{decade(phys)}")
    col.sample(case)


def helper_std(col, pp, cfg, sub_json, stored, as_container):
    """convert_from_storage_to_standard_format(what, quantity in storage units)."""
    col.case()
    col.label('helper:std')
    case = {'helper': 'std', 'sub': sub_json, 'stored': stored, 'as_container': as_container}
    sub = fill_defaults(Sub.from_json(sub_json), cfg)
    if as_container:
        what = pp.Container('vessel')
        true = {'L': stored * cfg.vol_mult}
        kind = 'container'
    else:
        what = basic.make_real(pp, sub)
        b = stored if sub.enzyme else stored * cfg.mol_mult
        true = {f: b * sub.factor(f) for f in ('L', 'g', 'U') if sub.factor(f) > 0}
        kind = sub.kind
    try:
        v2, u2 = pp.Unit.convert_from_storage_to_standard_format(what, stored)
        p2, fam2 = split_unit(u2)
    except Exception as e:  # noqa
        col.report(f"standard_format/{kind}/raised:{type(e).__name__}", {'exc': repr(e)[:120]}, case)
        return
    if fam2 not in true:
        col.report(f"standard_format/{kind}/unexpected-family/{fam2}", {'out': f"{v2} {u2}"}, case)
        return
    phys2 = v2 * prefix_f(p2)
    # the helper rounds the rescaled value to internal precision
    if abs(phys2 - true[fam2]) > 1e-9 * abs(true[fam2]) + 0.51 * cfg.grain * prefix_f(p2):
        col.report(f"standard_format/{kind}/amount-changed", {'stored': stored, 'out': f"{v2} {u2}", 'true': true[fam2]}, case)
    col.nontrivial_key(f"std|{kind}|{u2}|{decade(true[fam2])}")
    col.sample(case)


PROFILE = {'weights': {'transfer': 6, 'container': 4, 'plate': 1, 'remove': 1, 'fill_to': 3, 'slice': 1,
                       'create_solution': 2, 'dilute': 3, 'create_solution_from': 2},
           'q_modes': ['frac'] * 9 + ['whole'], 'self_transfer': False, 'solvent_containers': True,
           # (for the text only: a solvent container may already hold some of a solute; whether such a call succeeds is
           # not judged anywhere, but if it returns, the instruction must state what is added)
           'solvent_may_hold_solute': True}


def run(col):
    pp = core.env.bootstrap()
    cfg = RefCfg()
    prof = dict(PROFILE)
    prof['max_dim'] = 3 if col.tier == 'quick' else 4
    units = [p + f for f in ('L', 'g', 'mol') for p in PREFIX_LIST] + ['U']

    def t_hru():
        @given(st.floats(-15, 9), st.integers(1, 9999), st.sampled_from(units))
        def test(e, m, unit):
            helper_hru(col, pp, float(f"{m}e{int(e) - 3}") if m else 0.0, unit)
        return test
    core.run_property(col, t_hru, budget(400, 8000, col.tier), tag='hru')

    def t_std():
        @given(basic.substance_pool(cfg, max_extra=0), st.integers(0, 3), st.floats(-12, 9), st.integers(1, 9999),
               st.booleans())
        def test(subs, si, e, m, as_container):
            helper_std(col, pp, cfg, subs[si].to_json(), float(f"{m}e{int(e) - 3}"), as_container and si == 0)
        return test
    core.run_property(col, t_std, budget(400, 8000, col.tier), tag='std')
    core.run_property(col, lambda: benchmachine.make_machine(col, pp, prof, Text(col)),
                      budget(50, 800, col.tier), tag='bench', stateful_step_count=25 if col.tier == 'quick' else 40)
    try:
        from engines import programs
    except ImportError:
        return
    programs.run_c19(col, pp)


def replay(col, case):
    pp = core.env.bootstrap()
    if case.get('helper') == 'hru':
        return helper_hru(col, pp, case['value'], case['unit'])
    if case.get('helper') == 'std':
        return helper_std(col, pp, RefCfg(), case['sub'], case['stored'], case['as_container'])
    if case.get('program'):
        from engines import programs
        return programs.replay_c19(col, pp, case)
    benchmachine.replay_history(col, pp, case, Text(col))
