"""C04 Values are immutable: operations never modify their arguments, even on failure.
Engine E1 (direct API) monitor `frozen` + recipe programs (declared objects unchanged by uses / steps / bake)."""
from harness import core
from harness.core import budget
from engines import bench, benchmachine
from engines.benchmachine import Monitor

ID = 'C04'
SHARDS = {'quick': 8, 'thorough': 16}
RULE = ("stateful histories over all direct operations including failing ones (over-draws, overflow at a later "
        "well of a slice, bad shapes, fills below current), with results and pooled slice objects fed back as "
        "inputs. (1) structural fingerprint (name, capacity, volume, ordered contents, instructions, every well; "
        "substances; slices: selected wells + plate; argument lists) of every argument before the call == after, "
        "whether it returned or raised; (2) pool invariant after every step: every object ever returned still has "
        "the fingerprint recorded when it was returned; (3) recipe programs: objects handed to Recipe.uses, "
        "containers returned by create_*, and slices used as operands are unchanged by declaring, adding steps and "
        "bake (successful or raising). non-trivial = non-empty argument and (call raised or a result is later "
        "reused); distinct by (op, argument role, outcome, reuse-depth bucket)")
ASSUMPTIONS = ["observability = public attributes and observers (name, contents, volume, max_volume, instructions, "
               "wells, slice selection)", "sharing of internal dicts/arrays between result and argument is not "
               "itself a violation; only observable change is"]
REQUIRED_CLASSES = {'quick': ['outcome:raised', 'outcome:returned', 'arg:slice'],
                    'thorough': ['outcome:raised', 'outcome:returned', 'arg:slice', 'recipe']}


def diff_path(a, b, path=''):
    """first differing path between two views (for the report)"""
    if type(a) != type(b):
        return path or '/'
    if isinstance(a, dict):
        for k in a:
            if k not in b:
                return f"{path}/{k}"
            d = diff_path(a[k], b[k], f"{path}/{k}")
            if d:
                return d
        for k in b:
            if k not in a:
                return f"{path}/{k}"
        return None
    if isinstance(a, (list, tuple)):
        if len(a) != len(b):
            return f"{path}/len"
        for i, (x, y) in enumerate(zip(a, b)):
            d = diff_path(x, y, f"{path}/{i}")
            if d:
                return d
        return None
    if a != b and not (a != a and b != b):
        return path or '/'
    return None


def field_of(path):
    """coarse location: which attribute changed"""
    parts = [p for p in (path or '').split('/') if p and not p.isdigit()]
    return parts[-1] if parts else 'value'


class Frozen(Monitor):
    def __init__(self, col):
        self.col = col
        self.depth = {}

    def start(self, world):
        self.depth = {}

    def after(self, world, op, pre, out):
        col = self.col
        k = op['op']
        col.case()
        outcome = 'returned' if out.ok else 'raised'
        col.label(f"outcome:{outcome}")
        case = world.case
        # (1) arguments
        for (role, arg), before, after in zip(out.args, out.pre, out.post):
            kind = before.get('k') if isinstance(before, dict) else 'list'
            if kind == 's':
                col.label('arg:slice')
            d = diff_path(before, after)
            if d:
                col.report(f"argument-mutated/{out.api}/{role}/{outcome}", {'path': d, 'field': field_of(d)}, case)
            nonempty = self.nonempty(before)
            if nonempty and not out.ok:
                col.nontrivial_key(f"{out.api}|{role}|{kind}|raised|{type(out.exc).__name__}")
                col.sample(lambda: {'op': op, 'exception': repr(out.exc)[:120], 'history_len': len(world.history)})
        # reuse depth of operands
        depth = 0
        for r in self.refs(op):
            depth = max(depth, self.depth.get(r, 0))
        for e in out.new_entries:
            self.depth[world.pool.index(e)] = depth + 1
        if out.ok and depth >= 1:
            kinds = ''.join(sorted({(b.get('k') if isinstance(b, dict) else 'l') or 'v' for b in out.pre}))
            col.nontrivial_key(f"{out.api}|{kinds}|reused|depth{min(depth, 6)}")
        # (2) pool invariant
        new = {id(e) for e in out.new_entries}
        arg_ids = {id(a) for _, a in out.args}
        for i, e in enumerate(world.pool):
            if id(e) in new:
                continue
            if id(e.obj) in arg_ids:
                e.view = bench.view(e.obj, world.pp)      # a mutated argument was reported under (1) already
                continue
            cur = bench.view(e.obj, world.pp)
            d = diff_path(e.view, cur)
            if d:
                col.report(f"earlier-value-changed/by={out.api}/victim={e.kind}",
                           {'victim_pool_index': i, 'victim_origin_op': e.origin, 'path': d, 'field': field_of(d)}, case)
                e.view = cur     # report once

        # (3) asking a plate or slice a read-only question leaves what its wells answer unchanged (an observable of a
        # container is also what its observers say, not only its attributes)
        touched = list(out.new_entries) + [world.pool[i] for i in self.refs(op) if i < len(world.pool)]
        seen = set()
        for e in touched:
            if e.kind not in ('p', 's') or id(e.obj) in seen:
                continue
            seen.add(id(e.obj))
            plate = e.obj if e.kind == 'p' else e.obj.plate
            wells = [w for row in plate.wells for w in row]
            try:
                before = [(sorted(s_.name for s_ in w.get_substances()), w.get_volume()) for w in wells]
                e.obj.get_substances()
                e.obj.get_volumes()
                plate.get_substances()
                plate.get_volume()
                after = [(sorted(s_.name for s_ in w.get_substances()), w.get_volume()) for w in wells]
            except Exception:  # noqa  (what observers answer is C10's; here only that asking changes nothing)
                continue
            col.label('observers-asked')
            if before != after:
                idx = next(i for i, (x, y) in enumerate(zip(before, after)) if x != y)
                col.report(f"observer-changes-later-answers/{e.kind}", {'well': idx, 'before': before[idx], 'after': after[idx]}, case)

    def refs(self, op):
        out = []
        for key in ('src', 'dst', 'obj'):
            r = op.get(key)
            if isinstance(r, dict) and 'i' in r:
                out.append(r['i'])
            elif isinstance(r, int):
                out.append(r)
        if op['op'] == 'create_solution' and 'c' in op['solvent']:
            out.append(op['solvent']['c'])
        if op['op'] == 'create_solution_from' and 'c' in op['solvent']:
            out.append(op['solvent']['c'])
        if op['op'] == 'slice':
            out.append(op['plate'])
        return out

    def nonempty(self, v):
        if isinstance(v, dict):
            if v.get('k') == 'c':
                return bool(v['contents'])
            if v.get('k') == 'p':
                return any(w['contents'] for row in v['wells'] for w in row)
            if v.get('k') == 's':
                return self.nonempty(v['plate'])
        return False


PROFILE = {'weights': {'transfer': 6, 'container': 2, 'plate': 1, 'remove': 2, 'fill_to': 2, 'slice': 3,
                       'create_solution': 1, 'dilute': 2, 'create_solution_from': 1},
           'q_modes': ['frac'] * 6 + ['over', 'over', 'whole', 'zero', 'neg'], 'self_transfer': False,
           'ctor_faults': True, 'initial_slices': 1,
           # lists may name a well twice (only fingerprints are judged here, whatever such a list means well by well)
           'dup_wells': True}


def run(col):
    pp = core.env.bootstrap()
    prof = dict(PROFILE)
    prof['max_dim'] = 3 if col.tier == 'quick' else 4
    core.run_property(col, lambda: benchmachine.make_machine(col, pp, prof, Frozen(col)),
                      budget(40, 600, col.tier), tag='bench', stateful_step_count=25 if col.tier == 'quick' else 40)
    try:
        from engines import programs
    except ImportError:
        return
    programs.run_c04(col, pp)


def replay(col, case):
    pp = core.env.bootstrap()
    if case.get('program'):
        from engines import programs
        return programs.replay_c04(col, pp, case)
    benchmachine.replay_history(col, pp, case, Frozen(col))
