#!/venv/bin/python
"""Coverage-guided byte fuzzing (atheris / libFuzzer) of Unit.parse_quantity and Unit.parse_concentration with the
C14 oracle inside the target: a string the reference reader cannot read (even leniently) must be rejected; a string
it can read must give that reading (or be rejected when only the lenient reader accepts it).
Run by checks/c14.py in the thorough tier:  c14_fuzz.py <out.json> <corpus dir> -runs=N -seed=S -max_len=64 ...
Findings are written to <out.json> as they occur (first witness per signature); the process never crashes on them."""
import json
import os
import sys

HERE = os.path.dirname(os.path.dirname(os.path.abspath(__file__)))
sys.path.insert(0, HERE)
out_path, argv = sys.argv[1], [sys.argv[0]] + sys.argv[2:]

import atheris  # noqa: E402

from harness import env  # noqa: E402

with atheris.instrument_imports(include=['pyplate']):
    pp = env.bootstrap()

from refchem import parse as rparse  # noqa: E402
from refchem.model import RefCfg  # noqa: E402
from checks import c14  # noqa: E402

cfg = RefCfg()
found = {}
stats = {'execs': 0, 'accepted': 0, 'rejected': 0, 'strict_valid': 0}


def dump():
    with open(out_path, 'w') as f:
        json.dump({'found': list(found.values()), 'stats': stats}, f)


class Sink:
    """stand-in for the Collector: records the first witness per signature"""
    config = None

    def case(self):
        stats['execs'] += 1
        if stats['execs'] % 2000 == 0:     # atheris leaves through os._exit: keep the result file current
            dump()

    def label(self, *_):
        pass

    def nontrivial_key(self, *_):
        pass

    def sample(self, *_):
        pass

    def exclude(self, *_):
        pass

    def report(self, sig, detail, case):
        if sig not in found:
            found[sig] = {'sig': sig, 'detail': detail, 'case': case}
            with open(out_path, 'w') as f:
                json.dump({'found': list(found.values()), 'stats': stats}, f)


sink = Sink()


def target(data):
    if len(data) < 2:
        return
    kind = 'q' if data[0] & 1 else 'c'
    try:
        text = data[1:].decode('utf-8')
    except UnicodeDecodeError:
        text = data[1:].decode('latin-1')
    # strict reading available? then it must parse to that value
    try:
        if kind == 'q':
            exact, fam = rparse.quantity(text)
            stats['strict_valid'] += 1
            c14.check_quantity(sink, pp, cfg, text, exact, fam, 'fuzz')
        else:
            exact, n, d = rparse.concentration(text, cfg.wv)
            if exact > 0:
                stats['strict_valid'] += 1
                c14.check_concentration(sink, pp, cfg, text, exact, n, d, 'fuzz', 'fuzz')
        return
    except (rparse.Unreadable, ZeroDivisionError, ValueError, OverflowError):
        pass
    c14.check_malformed(sink, pp, cfg, kind, text, 'fuzz')


def main():
    dump()
    atheris.Setup(argv, target)
    atheris.Fuzz()


if __name__ == '__main__':
    try:
        main()
    finally:
        with open(out_path, 'w') as f:
            json.dump({'found': list(found.values()), 'stats': stats}, f)
