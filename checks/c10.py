"""C10 Reported volume, amounts and concentrations always agree with contents.  Engine E1, 'observe' pseudo-ops
interleaved with arbitrary histories; oracle = refchem definitions over the stored contents."""
import math

from hypothesis import strategies as st

from harness import core
from harness.core import budget
from engines import bench, benchmachine, benchgen
from engines.benchmachine import Monitor
from refchem.model import PREFIX_LIST, split_unit, prefix_f
from refchem import selectors as rsel

ID = 'C10'
SHARDS = {'quick': 8, 'thorough': 16}
RULE = ("stateful histories mixing every direct operation; after each step 'observe' pseudo-ops draw a pooled "
        "container / plate / region and an observer with its arguments (unit with any prefix, substance or "
        "substance list, concentration unit in every spelling incl. M, m, ratios, %): volume attribute = sum of "
        "refchem volumes of the contents; get_volume(unit); get_substances; get_concentration(solute, units); "
        "Plate/slice get_volumes(unit | substances, unit), get_moles (enzymes contribute 0), get_volume, "
        "get_substances — each compared with the value computed from the stored contents by definition, rounded "
        "to the configured precision (+ derived grain tolerance). non-trivial = vessel with >=2 substances after "
        ">=3 operations of >=2 kinds; distinct by (observer, unit family/prefix, history-kind set)")
ASSUMPTIONS = ["definitions: volume = sum of per-substance volumes; concentration = solute amount / size of whole "
               "mixture in the denominator unit; rounding to config.precisions / internal_precision",
               "observers whose denominator is zero for the vessel are skipped (undefined)"]
def shard_config(shard, tier):
    """four of eight shards run under other documented settings: default densities inf (solids/enzymes without
    volume) and 2.5/0.4, and other display precisions"""
    return {5: {'default_solid_density': float('inf'), 'default_enzyme_density': float('inf')},
            # display units that differ from the storage units (a volume kept in uL is reported in mL, moles in nmol)
            6: {'default_solid_density': 2.5, 'default_enzyme_density': 0.4, 'moles_display_unit': 'nmol',
                'volume_display_unit': 'mL'},
            1: {'moles_display_unit': 'mmol', 'volume_display_unit': 'nL'},
            2: {'default_solid_density': float('inf')},
            # other display precisions, 0 digits for a moles unit and a mass unit among them
            4: {'precisions': {'default': 2, 'umol': 0, 'uL': 2, 'mg': 0, 'nmol': 4}}}.get(shard % 8)


REQUIRED_CLASSES = {'quick': ['obs:volume', 'obs:get_concentration', 'obs:get_volumes', 'obs:get_moles'],
                    'thorough': ['obs:volume', 'obs:get_concentration', 'obs:get_volumes', 'obs:get_moles',
                                 'obs:get_substances', 'obs:plate.get_volume']}

CONC_UNITS = ['M', 'mM', 'uM', 'm', 'mm', 'g/L', 'mg/mL', 'mol/kg', 'umol/uL', 'g/g', 'L/L', 'mL/L', 'g/mol', 'mol/mol',
              'L/g', 'U/mL', 'U/L', 'U/g', 'U/mol', '%w/w', '%v/v', '%w/v', 'kg/L', 'nmol/mL', 'dg/dL', 'cmol/daL']
AMOUNT_UNITS = ['L', 'mL', 'uL', 'g', 'mg', 'ug', 'mol', 'mmol', 'umol', 'U', 'kg', 'nL', 'dL', 'µL', 'nmol']


def gen_observe(world, draw, profile):
    cs, ps = world.indices('c'), world.indices('p')
    ss = world.indices('s')
    kinds = (['c'] * 3 if cs else []) + (['p'] * 2 if ps else []) + (['s'] if ss else [])
    if not kinds:
        return None
    k = draw(st.sampled_from(kinds))
    nsub = len(world.subs)
    if k == 'c':
        # prefer recent / non-empty containers
        ne = [i for i in cs if benchgen._nonempty(world, world.pool[i].view)]
        i = draw(st.sampled_from(ne if (ne and draw(st.integers(0, 6))) else cs))
        obs = draw(st.sampled_from(['volume', 'get_volume', 'get_substances', 'get_concentration', 'get_concentration']))
        op = {'op': 'observe', 'obj': {'i': i}, 'observer': obs}
        if obs == 'get_volume':
            op['unit'] = draw(st.sampled_from([None] + [p + 'L' for p in PREFIX_LIST]))
        if obs == 'get_concentration':
            present = [world.by_name[n] for n, a in world.pool[i].view['contents']]
            op['solute'] = draw(st.sampled_from(present)) if (present and draw(st.integers(0, 5))) else \
                draw(st.integers(0, nsub - 1))
            op['units'] = draw(st.sampled_from(CONC_UNITS + [None]))
        return op
    if k == 'p':
        i = draw(st.sampled_from(ps))
        ref_ = {'i': i} if draw(st.booleans()) else benchgen.region_ref(world, draw, i)
        if ref_.get('sel', {}).get('t') == 'plate':
            ref_ = {'i': i}
    else:
        ref_ = {'i': draw(st.sampled_from(ss))}
    obs = draw(st.sampled_from(['get_volumes', 'get_volumes_sub', 'get_moles', 'plate.get_volume', 'get_substances']))
    op = {'op': 'observe', 'obj': ref_, 'observer': obs}
    if obs in ('get_volumes', 'plate.get_volume'):
        op['unit'] = draw(st.sampled_from([None] + [p + 'L' for p in PREFIX_LIST]))
    if obs == 'get_volumes_sub':
        op['unit'] = draw(st.sampled_from(AMOUNT_UNITS + [None]))
    if obs == 'get_moles':
        op['unit'] = draw(st.sampled_from([None] + [p + 'mol' for p in PREFIX_LIST]))
    if obs in ('get_volumes_sub', 'get_moles'):
        n = draw(st.integers(1, 3))
        subs = draw(st.lists(st.integers(0, nsub - 1), min_size=n, max_size=n, unique=True))
        op['subs'] = subs
        op['single'] = n == 1 and draw(st.booleans())
    return op


benchmachine.register_gen('observe', gen_observe)


class Observers(Monitor):
    def __init__(self, col):
        self.col = col

    def start(self, world):
        self.kinds = {}

    def after(self, world, op, pre, out):
        if op['op'] != 'observe':
            # remember the op kinds that produced each new object (history-kind set)
            src_kinds = set()
            for key in ('src', 'dst', 'obj'):
                r = op.get(key)
                i = r['i'] if isinstance(r, dict) else r if isinstance(r, int) else None
                if i is not None:
                    src_kinds |= self.kinds.get(i, set())
            for e in out.new_entries:
                self.kinds[world.pool.index(e)] = src_kinds | {op['op']}
            # every vessel is looked at once as soon as it exists: whatever it is derived from has been looked at the
            # same way, so an answer that travels with a copy instead of being computed from the contents shows
            for e in out.new_entries:
                if e.kind in ('c', 'p'):
                    idx = world.pool.index(e)
                    self.observe(world, {'op': 'observe', 'obj': {'i': idx}, 'observer': 'get_substances'})
                    if e.kind == 'c':
                        self.observe(world, {'op': 'observe', 'obj': {'i': idx}, 'observer': 'volume'})
            return
        self.observe(world, op)

    # -----------------------------------------------------------------------------------------------------------
    def observe(self, world, op):
        col, ref, cfg, pp = self.col, world.ref, world.cfg, world.pp
        obs = op['observer']
        col.case()
        col.label(f"obs:{obs}")
        case = world.case
        e = world.pool[op['obj']['i']]
        try:
            live, pe, sel = bench.resolve_ref(world, op['obj'])
        except Exception:
            return
        hist = self.kinds.get(op['obj']['i'] if e.kind != 's' else e.meta['plate'], set())

        def nontrivial(v, key):
            if len([1 for _, a in v['contents'] if a > 0]) >= 2 and len(hist) >= 2:
                col.nontrivial_key(f"{obs}|{key}|{'+'.join(sorted(hist))}")
                col.sample(lambda: {'observe': op, 'contents': v['contents'], 'history_kinds': sorted(hist)})

        if e.kind == 'c':
            v = bench.view_container(live)
            base = world.base(v)
            names = list(base)
            if obs == 'volume':
                exp = ref.volume_storage(base)
                tol = (sum(ref.grain_base(n) * abs(ref.subs[n].factor('L')) for n in names) / cfg.vol_mult
                       + (len(names) + 1) * cfg.grain + 1e-9 * abs(exp))
                if abs(live.volume - exp) > tol:
                    col.report('container.volume/disagrees-with-contents', {'got': live.volume, 'expected': exp, 'tol': tol}, case)
                nontrivial(v, 'attr')
            elif obs == 'get_volume':
                unit = op['unit']
                u = unit or cfg['volume_display_unit']
                exp = ref.size(base, 'L') / prefix_f(split_unit(u)[0])
                got = live.get_volume(unit) if unit is not None else live.get_volume()
                g = (sum(ref.grain_base(n) * abs(ref.subs[n].factor('L')) for n in names) + (len(names) + 1) * cfg.grain * cfg.vol_mult) \
                    / prefix_f(split_unit(u)[0])
                tol = 0.51 * cfg.grain + g + 1e-9 * abs(exp)
                if abs(got - exp) > tol:
                    col.report('container.get_volume/wrong', {'unit': unit, 'got': got, 'expected': exp, 'tol': tol}, case)
                nontrivial(v, u)
            elif obs == 'get_substances':
                got = {s.name for s in live.get_substances()}
                must = {n for n, a in v['contents'] if a > 0}
                keys = {n for n, a in v['contents']}
                if not (must <= got <= keys):
                    col.report('container.get_substances/wrong', {'got': sorted(got), 'positive': sorted(must)}, case)
                nontrivial(v, 'set')
            elif obs == 'get_concentration':
                self.concentration(world, op, live, v, base, case, nontrivial)
            return
        # plate / slice observers
        try:
            wells, pi, shape = bench.well_views(world, op['obj'])
        except rsel.Invalid:
            return
        target = live
        unit = op.get('unit')
        if obs in ('get_volumes', 'plate.get_volume'):
            u = unit or cfg['volume_display_unit']
            p = cfg.precision(u)
            exps = [ref.size(world.base(v), 'L') / prefix_f(split_unit(u)[0]) for _, v in wells]
            if obs == 'get_volumes':
                got = target.get_volumes(unit=unit) if unit is not None else target.get_volumes()
                self.compare_array(world, got, exps, shape, p, 'get_volumes', {'unit': unit}, case, wells)
            else:
                if not isinstance(target, pp.Plate):
                    return
                got = target.get_volume(unit) if unit is not None else target.get_volume()
                # documented default of Plate.get_volume is 'uL'
                if unit is None:
                    exps = [ref.size(world.base(v), 'L') / prefix_f('u') for _, v in wells]
                    p = cfg.precision('uL')
                exp = sum(exps)      # each well is rounded to p decimals: the sum is within n half-units of this
                tol = len(exps) * (0.51 * 10 ** -p) + 1e-9 * abs(exp) + 1e-9
                if abs(got - exp) > tol:
                    col.report('plate.get_volume/wrong', {'unit': unit, 'got': got, 'expected': exp}, case)
            for _, v in wells[:1]:
                nontrivial(v, u)
        elif obs == 'get_volumes_sub':
            u = unit or cfg['volume_display_unit']
            p = cfg.precision(u)
            pu, fu = split_unit(u)
            names = [world.subs[i].name for i in op['subs']]
            if fu == 'U' and any(not ref.subs[n].enzyme for n in names):
                return    # measuring a non-enzyme in U: conversion yields 0 by C06; the observer sums zeros
            exps = [sum(world.base(v).get(n, 0.0) * ref.subs[n].factor(fu) for n in names) / prefix_f(pu) for _, v in wells]
            arg = world.real[op['subs'][0]] if op.get('single') else [world.real[i] for i in op['subs']]
            got = target.get_volumes(arg, unit) if unit is not None else target.get_volumes(arg)
            self.compare_array(world, got, exps, shape, p, 'get_volumes(substance)', {'unit': unit, 'subs': names}, case, wells)
            for _, v in wells[:1]:
                nontrivial(v, u)
        elif obs == 'get_moles':
            u = unit or cfg['moles_display_unit']
            p = cfg.precision(u)
            names = [world.subs[i].name for i in op['subs']]
            exps = [sum(world.base(v).get(n, 0.0) * ref.subs[n].factor('mol') for n in names) / prefix_f(split_unit(u)[0])
                    for _, v in wells]
            arg = world.real[op['subs'][0]] if op.get('single') else [world.real[i] for i in op['subs']]
            got = target.get_moles(arg, unit) if unit is not None else target.get_moles(arg, None)
            self.compare_array(world, got, exps, shape, p, 'get_moles', {'unit': unit, 'subs': names}, case, wells)
            for _, v in wells[:1]:
                nontrivial(v, u)
        elif obs == 'get_substances':
            got = {s.name for s in target.get_substances()}
            must = {n for _, v in wells for n, a in v['contents'] if a > 0}
            keys = {n for _, v in wells for n, a in v['contents']}
            if not (must <= got <= keys):
                col.report('plate.get_substances/wrong', {'got': sorted(got), 'positive': sorted(must)}, case)
            for _, v in wells[:1]:
                nontrivial(v, 'set')

    def compare_array(self, world, got, exps, shape, p, name, detail, case, wells):
        import numpy
        col = self.col
        arr = numpy.asarray(got, dtype=float)
        flat = list(arr.flatten())
        if len(flat) != len(exps):
            col.report(f"{name}/wrong-size", dict(detail, got_shape=list(arr.shape), expected=len(exps)), case)
            return
        if shape is not None and tuple(arr.shape) != tuple(shape):
            col.report(f"{name}/wrong-shape", dict(detail, got_shape=list(arr.shape), expected=list(shape)), case)
        for idx, (g, x) in enumerate(zip(flat, exps)):
            tol = 0.51 * 10 ** -p + 1e-9 * abs(x) + 1e-12
            if abs(g - x) > tol:
                col.report(f"{name}/wrong-value", dict(detail, well=idx, got=g, expected=x, precision=p), case)
                return
            # ... and it is that value ROUNDED to the configured precision, not the value to some other number of digits
            if abs(g - round(g, p)) > 1e-9 * max(1.0, abs(g)):
                col.report(f"{name}/not-rounded-to-configured-precision", dict(detail, well=idx, got=g, precision=p), case)
                return

    def concentration(self, world, op, live, v, base, case, nontrivial):
        col, ref, cfg = self.col, world.ref, world.cfg
        sub = world.subs[op['solute']]
        units = op['units']
        u = units or 'M'
        # own reading of the unit spelling
        mult = 1.0
        if u.startswith('%'):
            mult = 0.01
            num, den = {'%w/w': ('g', 'g'), '%v/v': ('L', 'L'), '%w/v': tuple(cfg.wv.split('/'))}[u]
        elif '/' in u:
            num, den = u.split('/')
        elif u.endswith('M'):
            num, den = u[:-1] + 'mol', 'L'
        else:
            num, den = u[:-1] + 'mol', 'kg'
        pn, fn = split_unit(num)
        pd, fd = split_unit(den)
        den_size = ref.size(base, fd)
        amount = base.get(sub.name, 0.0) * sub.factor(fn)
        if den_size <= 0 and amount != 0:
            col.exclude('concentration with zero denominator')
            return
        exp = 0.0 if amount == 0 else (amount / prefix_f(pn)) / (den_size / prefix_f(pd)) / mult
        try:
            got = live.get_concentration(world.real[op['solute']], units) if units is not None else \
                live.get_concentration(world.real[op['solute']])
        except Exception as e:  # noqa
            col.report(f"get_concentration/raised:{type(e).__name__}", {'units': units, 'exc': repr(e)[:160]}, case)
            return
        names = list(base)
        eps = (sum(ref.grain_base(n) * abs(ref.subs[n].factor(fd)) for n in names) / den_size if den_size > 0 else 0.0)
        if fd == 'L' and den_size > 0:
            # get_volume(unit) is rounded to internal precision in the requested unit
            eps += (cfg.grain * prefix_f(pd) + (len(names) + 1) * cfg.grain * cfg.vol_mult) / den_size
        g_num = ref.grain_base(sub.name) / base[sub.name] if base.get(sub.name) else 0.0
        tol = 0.51 * cfg.grain + (2 * eps + g_num + 1e-9) * abs(exp)
        if abs(got - exp) > tol:
            col.report(f"get_concentration/{fn}-per-{fd}/wrong", {'units': units, 'solute': sub.name, 'got': got,
                                                                  'expected': exp, 'tol': tol}, case)
        nontrivial(v, u)


PROFILE = {'weights': {'transfer': 5, 'container': 2, 'plate': 1, 'remove': 2, 'fill_to': 2, 'slice': 1,
                       'create_solution': 2, 'dilute': 2, 'create_solution_from': 1, 'observe': 8},
           'q_modes': ['frac'] * 9 + ['whole'], 'self_transfer': False, 'repeat': {'observe': 4}}


def run(col):
    pp = core.env.bootstrap()
    prof = dict(PROFILE)
    prof['max_dim'] = 3 if col.tier == 'quick' else 4
    core.run_property(col, lambda: benchmachine.make_machine(col, pp, prof, Observers(col)),
                      budget(50, 800, col.tier), tag='bench', stateful_step_count=30 if col.tier == 'quick' else 50)


def replay(col, case):
    pp = core.env.bootstrap()
    benchmachine.replay_history(col, pp, case, Observers(col))
