"""C15 Container flows and amount remaining balance with the recipe's state.  Engine E2 + per-step ledger."""
import numpy
from hypothesis import given, strategies as st

from harness import core
from harness.core import budget
from engines import bench, programs
from refchem.model import RefCfg, split_unit, prefix_f, PREFIX_LIST

ID = 'C15'
SHARDS = {'quick': 8, 'thorough': 16}
RULE = ("@given baked programs as C09; queries over every object used by some step of the timeframe (source, "
        "destination, solvent or stock operand; containers and plates), units L / g / mol / U x prefix (biased to "
        "prefixes giving values >= 0.1), timeframe in {all, each stage}, mode before/after. Ledger per step and per "
        "well from the eager fold: delta = size_u(after) - size_u(before); in = sum max(delta,0), out = sum "
        "max(-delta,0) over the steps of the timeframe, rounded to config.precisions; remaining(before/after) = "
        "size_u at the timeframe's start/end; identity in - out == remaining(after) - remaining(before) within "
        "rounding; flows >= 0; plates: arrays of the plate's shape with float dtype, compared element-wise. "
        "non-trivial = object both receives and gives within the timeframe, or is a plate, or unit != volume; "
        "distinct by (object kind, unit family, step-kind set, stage count)")
ASSUMPTIONS = ["size_u: L = all volumes, g = all masses, mol = non-enzyme moles, U = enzyme activity",
               "dilute(new_name=...) not generated (see C09)", "an object untouched in the timeframe is not queried"]
def shard_config(shard, tier):
    """two of eight shards run under other documented settings: storage units (mmol, mL), and default densities
    2.5 / 0.4 with display units that differ from the storage units"""
    return {5: {'moles_storage_unit': 'mmol', 'volume_storage_unit': 'mL'},
            6: {'default_solid_density': 2.5, 'default_enzyme_density': 0.4, 'moles_display_unit': 'nmol',
                'volume_display_unit': 'mL'}}.get(shard % 8)


REQUIRED_CLASSES = {'quick': ['obj:c', 'obj:p', 'q:flows', 'q:remaining'],
                    'thorough': ['obj:c', 'obj:p', 'q:flows', 'q:remaining', 'timeframe:stage']}


def touched_keys(step):
    k = step['op']
    if k == 'transfer':
        return [step['src']['o'], step['dst']['o']]
    if k in ('remove', 'fill_to'):
        return [step['obj']['o']]
    if k == 'dilute':
        return [step['obj']]
    if k == 'solution':
        return [step['name']] + ([step['solvent']['o']] if 'o' in step['solvent'] else [])
    if k == 'solution_from':
        return [step['name'], step['src']]
    if k == 'create_container':
        return [step['name']]
    return []


def sizes(world, view, fam):
    """per-well sizes (family base units) as a flat list"""
    return [world.ref.size(world.base(w), fam) for _, w in programs.wells_of(view)]


def check_program(col, pp, cfg, prog, queries=None, draw=None):
    core.env.clear_caches()
    pair = programs.baked_pair(col, pp, prog)
    if pair is None:
        return
    full = prog
    world, eager, rr, prog = pair        # for a chained program: the second recipe and its part of the ledger
    ref = world.ref
    recipe = rr.recipe
    steps = programs.real_steps(prog)
    stages = programs.stages_of(prog)
    keys = sorted(k for k in eager.env.keys() if k in rr.decl)
    if not keys or not steps:
        col.exclude('empty program')
        return
    kinds = '+'.join(sorted({s['op'] for s in steps}))
    if queries is None:
        queries = []
        for _ in range(draw(st.integers(4, 10))):
            tf = draw(st.sampled_from(sorted(stages.keys())))
            s0, s1 = stages[tf]
            cands = sorted({k for i in range(s0, s1) for k in touched_keys(steps[i])})
            if not cands:
                continue
            key = draw(st.sampled_from(cands))
            fam = draw(st.sampled_from(['L', 'L', 'g', 'mol', 'U']))
            mags = [x for snap in eager.snapshots if key in snap for x in sizes(world, snap[key], fam)]
            val = max(mags + [0.0])
            good = [p for p in PREFIX_LIST if val > 0 and 0.1 <= val / prefix_f(p) < 1e6] if fam != 'U' else ['']
            prefix = draw(st.sampled_from(good if (good and draw(st.integers(0, 4))) else (PREFIX_LIST if fam != 'U' else [''])))
            what = draw(st.sampled_from(['flows', 'flows', 'remaining-after', 'remaining-before']))
            queries.append({'obj': key, 'timeframe': tf, 'unit': prefix + fam, 'what': what})
            if draw(st.integers(0, 2)) == 0:
                # the same question again in another unit: answers must not depend on what was asked before
                fam2 = draw(st.sampled_from([f for f in ('L', 'g', 'mol') if f != fam]))
                queries.append({'obj': key, 'timeframe': tf, 'unit': draw(st.sampled_from(['m', 'u', ''])) + fam2, 'what': what})
    for q in queries:
        col.case()
        key = q['obj']
        s0, s1 = stages[q['timeframe']]
        pu, fam = split_unit(q['unit'])
        scale = 1.0 / prefix_f(pu)
        p = cfg.precision(q['unit'])
        final = eager.snapshots[-1][key]
        is_plate = final['k'] == 'p'
        col.label(f"obj:{'p' if is_plate else 'c'}")
        col.label(f"timeframe:{'all' if q['timeframe'] == 'all' else 'stage'}")
        case = {'program': True, 'subs': full['subs'], 'objects': full['objects'], 'steps': full['steps'], 'queries': [q]}
        shape = tuple(final['shape']) if is_plate else None
        nw = len(programs.wells_of(final))
        names = {n for snap in eager.snapshots if key in snap for _, w in programs.wells_of(snap[key]) for n, _ in w['contents']}
        grain = sum(ref.grain_base(n) * abs(ref.subs[n].factor(fam)) for n in names) * scale
        tsteps = [i for i in range(s0, s1) if key in touched_keys(steps[i])]
        role = 'solvent-operand' if any(steps[i]['op'] == 'solution' and steps[i]['solvent'].get('o') == key for i in tsteps) else \
            'stock-operand' if any(steps[i]['op'] == 'solution_from' and steps[i]['src'] == key for i in tsteps) else 'plain'
        okind = 'plate' if is_plate else 'container'
        if q['what'] == 'flows':
            col.label('q:flows')
            fin, fout = [0.0] * nw, [0.0] * nw
            mag = [0.0] * nw        # size of the well itself: a flow is a difference of two such sizes (float cancellation)
            for i in tsteps:
                b = sizes(world, eager.snapshots[i][key], fam) if key in eager.snapshots[i] else [0.0] * nw
                a = sizes(world, eager.snapshots[i + 1][key], fam)
                for w in range(nw):
                    d = (a[w] - b[w]) * scale
                    mag[w] = max(mag[w], abs(a[w]) * scale, abs(b[w]) * scale)
                    if d > 0:
                        fin[w] += d
                    else:
                        fout[w] -= d
            try:
                got = recipe.get_container_flows(rr.decl[key], q['timeframe'], q['unit'])
            except Exception as e:  # noqa
                col.report(f"get_container_flows/{okind}/raised:{type(e).__name__}", {'exc': repr(e)[:160], 'query': q}, case)
                continue
            for name, exp in (('in', fin), ('out', fout)):
                g = got.get(name)
                arr = numpy.asarray(g, dtype=float)
                if is_plate and tuple(arr.shape) != shape:
                    col.report(f"get_container_flows/plate/wrong-shape", {'got': list(arr.shape), 'expected': list(shape)}, case)
                    break
                flat = list(arr.flatten()) if is_plate else [float(g)]
                bad = None
                for w in range(nw):
                    tol = 0.5 * 10 ** -p * 1.000001 + (2 * len(tsteps) + 2) * grain + 1e-9 * abs(exp[w]) + \
                        8 * len(tsteps) * 2.3e-16 * mag[w]
                    if flat[w] < -tol:
                        bad = ('negative', w)
                    elif abs(flat[w] - exp[w]) > tol:
                        bad = ('wrong', w)
                    if bad:
                        break
                if bad:
                    col.report(f"get_container_flows/{okind}/{name}-{bad[0]}/{role}",
                               {'got': flat[bad[1]], 'expected': exp[bad[1]], 'well': bad[1], 'query': q}, case)
            both = any(x > 0 for x in fin) and any(x > 0 for x in fout)
            if both or is_plate or fam != 'L':
                col.nontrivial_key(f"flows|{okind}|{fam}|{len(stages) - 1}|{kinds}")
                col.sample(lambda: {'steps': prog['steps'], 'query': q, 'expected_in': fin[:4], 'expected_out': fout[:4]})
        else:
            col.label('q:remaining')
            mode = 'after' if q['what'].endswith('after') else 'before'
            if not tsteps:
                continue
            idx = tsteps[-1] + 1 if mode == 'after' else tsteps[0]
            exp = [x * scale for x in sizes(world, eager.snapshots[idx][key], fam)] if key in eager.snapshots[idx] else [0.0] * nw
            try:
                got = recipe.get_amount_remaining(rr.decl[key], q['timeframe'], q['unit'], mode)
            except Exception as e:  # noqa
                col.report(f"get_amount_remaining/{okind}/raised:{type(e).__name__}", {'exc': repr(e)[:160], 'query': q}, case)
                continue
            if got is None:
                col.report(f"get_amount_remaining/{okind}/returned-None/{role}", {'query': q}, case)
                continue
            arr = numpy.asarray(got)
            if is_plate:
                if tuple(arr.shape) != shape:
                    col.report("get_amount_remaining/plate/wrong-shape", {'got': list(arr.shape)}, case)
                    continue
                if arr.dtype.kind != 'f':
                    col.report("get_amount_remaining/plate/not-float-dtype", {'dtype': str(arr.dtype), 'query': q}, case)
            flat = [float(x) for x in arr.flatten()] if is_plate else [float(got)]
            for w in range(nw):
                tol = 4 * grain + 1e-9 * abs(exp[w])
                if abs(flat[w] - exp[w]) > tol:
                    col.report(f"get_amount_remaining/{okind}/{mode}-wrong/{role}",
                               {'got': flat[w], 'expected': exp[w], 'well': w, 'query': q}, case)
                    break
            if is_plate or fam != 'L':
                col.nontrivial_key(f"remaining|{okind}|{fam}|{mode}|{kinds}")


def lots_case(col, pp, cfg, case):
    """Two lots of one enzyme (same name, different specific activity) in different wells of one plate, asked about
    in a mass unit.  Substance equality ignores the specific activity, so anything keyed by Substance must not stand
    in for the per-lot conversion.  Expected values from first principles, without the reference model (which keys
    substances by name): mass of a well = share of the water + share of the activity / that lot's specific activity.
    case: {'lots': [[sa U/mg, activity U, aliquot uL], [..]], 'unit': 'mg'|'ug'|'g'}"""
    import numpy
    core.env.clear_caches()
    col.case()
    col.label('lots')
    S = pp.Substance
    water = S.liquid('H2O', 18.0153, 1.0)
    d_enz = float(cfg['default_enzyme_density'])             # U per mL
    plate = pp.Plate('p', '2 mL', rows=len(case['lots']), columns=1)
    srcs, exp_g = [], []
    for k, (sa, act, q) in enumerate(case['lots']):
        lot = S.enzyme('lipase', f"{sa} U/mg")
        srcs.append(pp.Container(f"lot{k + 1}", initial_contents=[(water, '1 mL'), (lot, f"{act} U")]))
        vol_uL = 1000.0 + (act / d_enz * 1000.0 if d_enz != float('inf') else 0.0)
        share = q / vol_uL
        exp_g.append(share * 1.0 + share * act / (sa * 1000.0))        # 1 mL of water weighs 1 g; sa in U/g = sa * 1000
    r = pp.Recipe()
    r.uses(plate, *srcs)
    for k, (sa, act, q) in enumerate(case['lots']):
        r.transfer(srcs[k], plate[k + 1, 1], f"{q} uL")
    r.bake()
    unit = case['unit']
    scale = {'g': 1.0, 'mg': 1e3, 'ug': 1e6}[unit]
    p = cfg.precision(unit)
    tol = [0.51 * 10 ** -p + 1e-7 * x * scale for x in exp_g]
    rem = numpy.asarray(r.get_amount_remaining(plate, 'all', unit), dtype=float).flatten()
    flows = r.get_container_flows(plate, 'all', unit)
    fin = numpy.asarray(flows['in'], dtype=float).flatten()
    for k, x in enumerate(exp_g):
        if abs(rem[k] - x * scale) > tol[k]:
            col.report('lots/get_amount_remaining/well-of-another-lot-wrong', {'well': k, 'got': float(rem[k]), 'expected': x * scale, 'unit': unit}, case)
            return
        if abs(fin[k] - x * scale) > tol[k]:
            col.report('lots/get_container_flows/well-of-another-lot-wrong', {'well': k, 'got': float(fin[k]), 'expected': x * scale, 'unit': unit}, case)
            return
    col.nontrivial_key(f"lots|{unit}|{len(case['lots'])}")
    col.sample(case)


def run(col):
    pp = core.env.bootstrap()
    cfg = RefCfg()

    def t_lots():
        @given(st.lists(st.tuples(st.sampled_from([0.5, 1, 2, 5, 10, 20, 50]), st.sampled_from([0.01, 0.05, 0.1, 0.2]),
                                  st.integers(20, 900)), min_size=2, max_size=3, unique_by=lambda t: t[0]),
               st.sampled_from(['mg', 'ug', 'g']))
        def test(lots, unit):
            lots_case(col, pp, cfg, {'lots': [list(x) for x in lots], 'unit': unit})
        return test
    core.run_property(col, t_lots, budget(15, 150, col.tier), tag='lots')
    prof = {'max_steps': 10 if col.tier == 'quick' else 20, 'max_dim': 3, 'keep_failing': False,
            'weights': {'remove': 3, 'transfer': 8, 'solution': 3}, 'dilute_new_name': False, 'chain': True,
            # on every other shard a list of wells may name a well twice (it then takes part twice in the step; the
            # ledger is built from the states the direct calls reach, whatever that means well by well)
            'dup_wells': col.shard % 2 == 1}

    def t():
        @given(st.data())
        def test(data):
            core.env.clear_caches()
            prog = programs.gen_program(data.draw, pp, cfg, prof)
            check_program(col, pp, cfg, prog, draw=data.draw)
        return test
    core.run_property(col, t, budget(120, 2000, col.tier), tag='programs')


def replay(col, case):
    pp = core.env.bootstrap()
    if 'lots' in case:
        return lots_case(col, pp, RefCfg(), case)
    check_program(col, pp, RefCfg(), case, queries=case.get('queries') or [])
