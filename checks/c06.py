"""C06 Unit conversions follow molar mass, density and specific activity.

Engine E3: for each Hypothesis-generated substance the complete (from-unit x to-unit) table — 4 x 4 base units x
10 x 10 prefixes — is enumerated for several amounts and compared with the first-principles factor of refchem.
Shards run under different default-density configurations (config is fixed at import time of pyplate).
"""
import itertools
import math

from hypothesis import given, strategies as st

from harness import core
from harness.core import budget
from refchem.model import PREFIX_LIST, PREFIXES, RefCfg, Sub, fill_defaults, prefix_f, FAMILIES
from gen import basic

ID = 'C06'
SHARDS = {'quick': 6, 'thorough': 16}
RULE = ("per generated substance (any kind; MW 1..1e4, density 0.3..20, specific activity in both spellings) the "
        "full table of 4x4 base units x 10x10 SI prefixes is enumerated for amounts {0, 1, int, +random, -random}; "
        "oracle = first-principles factor (relative 1e-12), exact zeros, ValueError for non-enzyme from U, "
        "linearity/composition/round-trip where the factor is finite and non-zero, storage conversions vs "
        "prefix arithmetic rounded to internal precision; shards cycle default densities {1,1},{2.5,0.4},{inf,inf}. "
        "non-trivial = from-unit != to-unit (family or prefix) with finite non-zero factor; "
        "distinct = (kind, from unit, to unit, density config)")
ASSUMPTIONS = ["refchem factors are first-principles (mass = mol*MW, volume = mass/density, U = g*SA)",
               "float comparison relative 1e-12; storage conversions compared after rounding to internal_precision",
               "'supported prefixes' = the ten the code accepts (n u µ m c d '' da k M); docs' pico is rejected",
               "from-units whose factor is 0 for the substance (volume at infinite density) are undefined: skipped"]
CONFIGS = [None,
           {'default_solid_density': 2.5, 'default_enzyme_density': 0.4},
           {'default_solid_density': float('inf'), 'default_enzyme_density': float('inf')}]


def shard_config(shard, tier):
    return CONFIGS[shard % len(CONFIGS)]


def units_of(fam):
    if fam == 'U':
        # convert_from accepts prefixed U spellings too (prefix loop is generic)
        return [(p, p + 'U') for p in PREFIX_LIST]
    return [(p, p + fam) for p in PREFIX_LIST]


def expected(sub, amount, pf, ff, pt, ft):
    """-> ('raise',) | ('skip',) | ('zero',) | ('value', x)"""
    if ff == 'U' and not sub.enzyme:
        return ('raise',)
    f_from, f_to = sub.factor(ff), sub.factor(ft)
    if sub.enzyme and ff == 'mol':
        return ('zero',)
    if f_from == 0 or math.isinf(f_from):
        return ('skip',)
    if f_to == 0:
        return ('zero',)
    return ('value', amount * prefix_f(pf) / f_from * f_to / prefix_f(pt))


def check_cell(col, pp, real, sub, amount, fu, tu, pf, ff, pt, ft, cfgkey):
    exp = expected(sub, amount, pf, ff, pt, ft)

    def case():
        return {'sub': sub.to_json(), 'amount': amount, 'from': fu, 'to': tu, 'config': col.config}
    try:
        got = pp.Unit.convert_from(real, amount, fu, tu)
        exc = None
    except Exception as e:  # noqa
        got, exc = None, e
    base_sig = f"convert_from/{sub.kind}/{ff}->{ft}"
    if exp[0] == 'raise':
        if exc is None:
            col.report(base_sig + '/not-rejected', {'got': got}, case)
        elif not isinstance(exc, ValueError):
            col.report(base_sig + '/wrong-exception', {'exc': repr(exc)}, case)
        return None
    if exp[0] == 'skip':
        return None
    if exc is not None:
        col.report(base_sig + '/raised', {'exc': repr(exc)}, case)
        return None
    if exp[0] == 'zero':
        if got != 0:
            col.report(base_sig + '/nonzero', {'got': got}, case)
        return 0.0
    x = exp[1]
    if not (isinstance(got, (int, float)) and math.isfinite(got)) or abs(got - x) > 1e-12 * max(abs(got), abs(x)):
        col.report(base_sig + '/value', {'got': got, 'expected': x}, case)
    return got


def check_substance(col, pp, sub, amounts, cfgkey):
    real = basic.make_real(pp, sub)
    # factories fix density / specific activity
    if sub.kind in ('solid', 'enzyme') and real.density != sub.density:
        col.report(f"factory/{sub.kind}/density", {'got': real.density, 'expected': sub.density},
                   {'sub': sub.to_json(), 'config': col.config, 'amount': 1, 'from': 'g', 'to': 'L'})
    if sub.enzyme and abs(real.specific_activity - sub.sa) > 1e-9 * sub.sa:
        col.report("factory/enzyme/specific_activity", {'got': real.specific_activity, 'expected': sub.sa},
                   {'sub': sub.to_json(), 'config': col.config, 'amount': 1, 'from': 'g', 'to': 'U'})
    for ff, ft in itertools.product(FAMILIES, FAMILIES):
        for (pf, fu), (pt, tu) in itertools.product(units_of(ff), units_of(ft)):
            nontriv = False
            for amount in amounts:
                col.case()
                got = check_cell(col, pp, real, sub, amount, fu, tu, pf, ff, pt, ft, cfgkey)
                f_from, f_to = sub.factor(ff), sub.factor(ft)
                if got is not None and f_from not in (0,) and f_to != 0 and math.isfinite(f_from) \
                        and math.isfinite(f_to) and not (ff == 'U' and not sub.enzyme) and fu != tu:
                    nontriv = True
            if nontriv:
                col.nontrivial_key(f"{sub.kind}:{fu}>{tu}:{cfgkey}")
    col.label(f"kind={sub.kind}")
    col.enumerated += 1


def check_algebra(col, pp, sub, x, k, units):
    """linearity, composition and round-trip, directly on the implementation (independent of refchem)."""
    real = basic.make_real(pp, sub)
    ok_fams = [f for f in FAMILIES if sub.factor(f) not in (0,) and math.isfinite(sub.factor(f))
               and not (f == 'U' and not sub.enzyme)]
    (pa, fa), (pb, fb), (pc, fc) = units
    if fa not in ok_fams or fb not in ok_fams or fc not in ok_fams:
        col.exclude('algebra: factor zero or infinite')
        return
    ua, ub, uc = pa + fa, pb + fb, pc + fc
    cv = pp.Unit.convert_from

    def case(kind):
        return {'algebra': kind, 'sub': sub.to_json(), 'x': x, 'k': k, 'units': [ua, ub, uc], 'config': col.config}

    def rel(a, b):
        return abs(a - b) <= 1e-12 * max(abs(a), abs(b))
    col.case()
    ab = cv(real, x, ua, ub)
    if not rel(cv(real, k * x, ua, ub), k * ab):
        col.report(f"algebra/{sub.kind}/linear/{fa}->{fb}", {'x': x, 'k': k}, lambda: case('linear'))
    if not rel(cv(real, ab, ub, uc), cv(real, x, ua, uc)):
        col.report(f"algebra/{sub.kind}/compose/{fa}->{fb}->{fc}", {'x': x}, lambda: case('compose'))
    if not rel(cv(real, ab, ub, ua), x):
        col.report(f"algebra/{sub.kind}/roundtrip/{fa}->{fb}", {'x': x}, lambda: case('roundtrip'))
    col.nontrivial_key(f"alg:{sub.kind}:{ua}>{ub}>{uc}")


def check_storage(col, pp, cfg, value, unit):
    """convert_to_storage / convert_from_storage over {L, mol} x prefixes."""
    p = unit[:-1] if unit.endswith('L') else unit[:-3]
    fam = 'L' if unit.endswith('L') else 'mol'
    sp = cfg.vol_prefix if fam == 'L' else cfg.mol_prefix
    col.case()

    def case(kind):
        return {'storage': kind, 'value': value, 'unit': unit, 'config': col.config}
    exp_to = float(value) * prefix_f(p) / prefix_f(sp)
    got_to = pp.Unit.convert_to_storage(value, unit)
    tol = 0.51 * cfg.grain + 1e-12 * abs(exp_to)
    if abs(got_to - exp_to) > tol:
        col.report(f"storage/to/{fam}", {'got': got_to, 'expected': exp_to}, lambda: case('to'))
    exp_from = float(value) * prefix_f(sp) / prefix_f(p)
    got_from = pp.Unit.convert_from_storage(value, unit)
    if abs(got_from - exp_from) > 0.51 * cfg.grain + 1e-12 * abs(exp_from):
        col.report(f"storage/from/{fam}", {'got': got_from, 'expected': exp_from}, lambda: case('from'))
    # mutually inverse within one grain (in each unit)
    back = pp.Unit.convert_from_storage(got_to, unit)
    if abs(back - value) > cfg.grain * (1 + prefix_f(sp) / prefix_f(p)) + 1e-12 * abs(value):
        col.report(f"storage/inverse/{fam}", {'value': value, 'back': back}, lambda: case('inverse'))
    col.nontrivial_key(f"sto:{unit}")


@st.composite
def a_substance(draw, cfg):
    kind = draw(st.sampled_from(['solid', 'liquid', 'enzyme']))
    if kind == 'enzyme':
        sa, text = draw(basic.enzyme_sa())
        s = Sub('enzyme', 'enz', None, None, sa, text)
    elif kind == 'solid':
        s = Sub('solid', 'sol', draw(st.floats(1e-3, 1e6, allow_nan=False, allow_subnormal=False)))
    else:
        s = Sub('liquid', 'liq', draw(st.floats(1e-3, 1e6, allow_nan=False, allow_subnormal=False)),
                draw(st.floats(1e-3, 1e3, allow_nan=False, allow_subnormal=False)))
    return fill_defaults(s, cfg)


def run(col):
    pp = core.env.bootstrap()
    cfg = RefCfg()
    cfgkey = str(col.shard % len(CONFIGS))
    n_sub = budget(3, 20, col.tier)
    n_alg = budget(300, 4000, col.tier)
    n_sto = budget(200, 3000, col.tier)

    def t_table():
        @given(a_substance(cfg), st.floats(1e-9, 1e9), st.floats(-1e9, -1e-9), st.integers(2, 10 ** 6))
        def test(sub, xp, xn, xi):
            core.env.clear_caches()
            col.sample(lambda: {'sub': sub.to_json(), 'amounts': [0, 1, xi, xp, xn], 'table': 'full 40x40 units',
                                'config': col.config})
            check_substance(col, pp, sub, [0, 1, xi, xp, xn], cfgkey)
        return test
    core.run_property(col, t_table, n_sub, tag='table')

    units = st.tuples(st.sampled_from(PREFIX_LIST), st.sampled_from(FAMILIES))

    def t_alg():
        @given(a_substance(cfg), st.floats(1e-9, 1e9), st.floats(1e-3, 1e3), st.tuples(units, units, units))
        def test(sub, x, k, us):
            check_algebra(col, pp, sub, x, k, us)
        return test
    core.run_property(col, t_alg, n_alg, tag='algebra')

    sunits = st.tuples(st.sampled_from(PREFIX_LIST), st.sampled_from(['L', 'mol'])).map(lambda t: t[0] + t[1])

    def t_sto():
        @given(st.one_of(st.floats(-1e6, 1e6), st.integers(-10 ** 6, 10 ** 6)), sunits)
        def test(v, unit):
            check_storage(col, pp, cfg, v, unit)
        return test
    core.run_property(col, t_sto, n_sto, tag='storage')
    # string form Unit.convert == convert_from o parse
    def t_str():
        @given(a_substance(cfg), basic.free_quantity(), units)
        def test(sub, q, u):
            real = basic.make_real(pp, sub)
            pt, ft = u
            col.case()
            exp = expected(sub, float(q.value), '', q.fam, pt, ft)

            def case():
                return {'convert': q.text, 'sub': sub.to_json(), 'to': pt + ft, 'config': col.config}
            try:
                got = pp.Unit.convert(real, q.text, pt + ft)
            except ValueError as e:
                if exp[0] != 'raise':
                    col.report(f"convert/{sub.kind}/{q.fam}->{ft}/raised", {'exc': repr(e)}, case)
                return
            if exp[0] == 'raise':
                col.report(f"convert/{sub.kind}/{q.fam}->{ft}/not-rejected", {'got': got}, case)
            elif exp[0] == 'zero' and got != 0:
                col.report(f"convert/{sub.kind}/{q.fam}->{ft}/nonzero", {'got': got}, case)
            elif exp[0] == 'value' and abs(got - exp[1]) > 1e-12 * max(abs(got), abs(exp[1])):
                col.report(f"convert/{sub.kind}/{q.fam}->{ft}/value", {'got': got, 'expected': exp[1]}, case)
            if exp[0] == 'value' and (q.prefix or pt or q.fam != ft):
                col.nontrivial_key(f"str:{sub.kind}:{q.prefix}{q.fam}>{pt}{ft}")
        return test
    core.run_property(col, t_str, n_alg, tag='string')
    col.exhaustive = False  # the unit table is complete per substance; substances and amounts are sampled


def replay(col, case):
    pp = core.env.bootstrap()
    cfg = RefCfg()
    if 'storage' in case:
        return check_storage(col, pp, cfg, case['value'], case['unit'])
    sub = fill_defaults(Sub.from_json(case['sub']), cfg)
    if 'algebra' in case:
        from refchem.model import split_unit
        return check_algebra(col, pp, sub, case['x'], case['k'], [split_unit(u) for u in case['units']])
    from refchem.model import split_unit
    real = basic.make_real(pp, sub)
    if 'convert' in case:
        v, u = case['convert'].split(' ')
        pf, ff = split_unit(u)
        pt, ft = split_unit(case['to'])
        exp = expected(sub, float(v) * prefix_f(pf), '', ff, pt, ft)
        try:
            got = pp.Unit.convert(real, case['convert'], case['to'])
        except ValueError as e:
            if exp[0] != 'raise':
                col.report(f"convert/{sub.kind}/{ff}->{ft}/raised", {'exc': repr(e)}, case)
            return
        if exp[0] == 'raise':
            col.report(f"convert/{sub.kind}/{ff}->{ft}/not-rejected", {'got': got}, case)
        elif exp[0] == 'zero' and got != 0:
            col.report(f"convert/{sub.kind}/{ff}->{ft}/nonzero", {'got': got}, case)
        elif exp[0] == 'value' and abs(got - exp[1]) > 1e-12 * max(abs(got), abs(exp[1])):
            col.report(f"convert/{sub.kind}/{ff}->{ft}/value", {'got': got, 'expected': exp[1]}, case)
        return
    if sub.kind in ('solid', 'enzyme') and real.density != sub.density:
        col.report(f"factory/{sub.kind}/density", {'got': real.density, 'expected': sub.density}, case)
    if sub.enzyme and abs(real.specific_activity - sub.sa) > 1e-9 * sub.sa:
        col.report("factory/enzyme/specific_activity", {'got': real.specific_activity}, case)
    pf, ff = split_unit(case['from'])
    pt, ft = split_unit(case['to'])
    check_cell(col, pp, real, sub, case['amount'], case['from'], case['to'], pf, ff, pt, ft, '')
