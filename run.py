#!/venv/bin/python
"""Runner: `run.py check <ID> [--tier quick|thorough]`, `run.py replay <file>`, `run.py all [--tier ..]`.

Exit 0 = property held on everything explored (KNOWN-FINDING lines possible); 1 = VIOLATION line(s) printed;
2 = harness error (never a violation).
"""
import argparse
import json
import os
import sys
import traceback

HERE = os.path.dirname(os.path.abspath(__file__))


def _reexec_pinned():
    """Fresh, hash-seed-pinned interpreter with /verif (and optional .deps) importable."""
    if os.environ.get('PYTHONHASHSEED') != '0' or os.environ.get('VERIF_PINNED') != '1':
        e = dict(os.environ)
        e['PYTHONHASHSEED'] = '0'
        e['VERIF_PINNED'] = '1'
        e['PYTHONDONTWRITEBYTECODE'] = '1'
        e.pop('PYPLATE_CONFIG', None)
        pp = [HERE]
        deps = os.path.join(HERE, '.deps')
        if os.path.isdir(deps):
            pp.append(deps)
        if e.get('PYTHONPATH'):
            pp.append(e['PYTHONPATH'])
        e['PYTHONPATH'] = os.pathsep.join(pp)
        os.execve(sys.executable, [sys.executable] + sys.argv, e)


def main():
    ap = argparse.ArgumentParser()
    sub = ap.add_subparsers(dest='cmd', required=True)
    c = sub.add_parser('check')
    c.add_argument('prop')
    c.add_argument('--tier', default=os.environ.get('VERIF_TIER', 'quick'), choices=['quick', 'thorough'])
    r = sub.add_parser('replay')
    r.add_argument('path')
    a = sub.add_parser('all')
    a.add_argument('--tier', default=os.environ.get('VERIF_TIER', 'quick'), choices=['quick', 'thorough'])
    args = ap.parse_args()
    _reexec_pinned()
    os.chdir(HERE)
    sys.path.insert(0, HERE)
    try:
        seed = int(os.environ.get('VERIF_SEED', '1') or '1')
    except ValueError:
        seed = 1
    from harness import core
    try:
        if args.cmd == 'check':
            return core.run_check(args.prop.upper(), args.tier, seed)
        if args.cmd == 'replay':
            with open(args.path) as f:
                body = json.load(f)
            hits = core.replay_case(body['property'], body['case'])
            want = body.get('sig')
            rel = os.path.relpath(os.path.abspath(args.path), HERE)
            got = [h for h in hits if want is None or h['sig'] == want]
            for h in hits:
                print(f"  hit sig={h['sig']} detail={json.dumps(h['detail'])[:800]}")
            if got:
                print(f"VIOLATION property={body['property']} replay={rel}")
                return 1
            print(f"replay of {rel}: signature {want} does not reproduce")
            return 0
        if args.cmd == 'all':
            with open(os.path.join(HERE, 'MANIFEST.json')) as f:
                man = json.load(f)
            worst = 0
            for chk in man['checks']:
                rc = core.run_check(chk['property_id'], args.tier, seed)
                worst = max(worst, rc)
            return worst
    except core.HarnessError as e:
        traceback.print_exc()
        print(f"HARNESS-ERROR {e}")
        return 2
    except Exception as e:  # anything unexpected in the harness is exit 2, never a violation
        traceback.print_exc()
        print(f"HARNESS-ERROR {type(e).__name__}: {e}")
        return 2


if __name__ == '__main__':
    sys.exit(main())
