"""Hypothesis strategies and renderers for substances, quantity strings and concentration strings.

Every numeric literal is an exact decimal; SI prefixes are applied as exact Fractions, so that equivalent
spellings are exactly equal on the reference side.
"""
import math
from decimal import Decimal
from fractions import Fraction

from hypothesis import strategies as st

from refchem.model import PREFIXES, PREFIX_LIST, Sub, fill_defaults

# prefixes weighted towards the ones people use, but all ten appear
PREFIX_POOL = ['', 'm', 'u', 'µ', 'n', 'k', 'c', 'd', 'da', 'M']


class Q:
    """A quantity string with its exact meaning. value: Fraction in base units (L, g, mol, U)."""
    __slots__ = ('value', 'fam', 'prefix', 'text')

    def __init__(self, value, fam, prefix, text):
        self.value, self.fam, self.prefix, self.text = value, fam, prefix, text

    def __float__(self):
        return float(self.value)

    def __repr__(self):
        return f"Q({self.text!r})"


class C:
    """A concentration string with its exact meaning: `value` (Fraction) num-base-units per den-base-unit."""
    __slots__ = ('value', 'num', 'den', 'text', 'form')

    def __init__(self, value, num, den, text, form):
        self.value, self.num, self.den, self.text, self.form = value, num, den, text, form

    def __repr__(self):
        return f"C({self.text!r})"


# ------------------------------------------------------------------------------------------------ decimals

def dec_text(frac_or_str, style):
    """Render an exact decimal (given as a Decimal-compatible string like '1.25e-3') in one of three spellings."""
    d = Decimal(frac_or_str)
    if d == 0:
        return '0' if style != 2 else '0.0'
    sign, digits, exp = d.as_tuple()
    if style == 3:          # spreadsheet / "%.3E" style: capital E, signed two-digit exponent
        m, e = f"{d.normalize():e}".replace('E', 'e').split('e')
        return f"{m}E{'-' if int(e) < 0 else '+'}{abs(int(e)):02d}"
    if style == 4:          # explicit plus sign
        return ('+' if sign == 0 else '') + dec_text(frac_or_str, 0)
    # normalised scientific
    if style == 1:
        s = f"{d.normalize():e}"
        return s.replace('E', 'e')
    # positional when reasonably short
    pos = format(d.normalize(), 'f')
    if len(pos) <= 24:
        if style == 2 and '.' not in pos:
            pos += '.0'
        return pos
    return f"{d.normalize():e}".replace('E', 'e')


def snap(x, digits=12):
    """float -> (exact Fraction, canonical decimal string) with `digits` significant digits."""
    s = f"{x:.{digits - 1}e}"
    return Fraction(s), s


def render_q(x_base, fam, prefix='', style=0, digits=12):
    """A quantity string denoting (x_base snapped to `digits` digits in the prefixed unit)."""
    if fam == 'U':
        prefix = ''
    if not math.isfinite(x_base):          # amounts derived through a density of inf (substances without volume)
        x_base = 1e-6
    v = x_base / float(PREFIXES[prefix])
    frac, s = snap(v, digits)
    text = dec_text(s, style)
    return Q(frac * PREFIXES[prefix], fam, prefix, f"{text} {prefix}{fam}")


@st.composite
def decimal_mantissa(draw, max_digits=7):
    nd = draw(st.integers(1, max_digits))
    return draw(st.integers(10 ** (nd - 1), 10 ** nd - 1))


@st.composite
def free_quantity(draw, fams=('L', 'g', 'mol', 'U'), lo_exp=-9, hi_exp=2, prefixes=PREFIX_POOL):
    """A positive quantity with base value between 10**lo_exp and 10**(hi_exp+1), any prefix, exact decimal."""
    fam = draw(st.sampled_from(list(fams)))
    prefix = '' if fam == 'U' else draw(st.sampled_from(prefixes))
    m = draw(decimal_mantissa(5))
    e = draw(st.integers(lo_exp, hi_exp))
    nd = len(str(m))
    # value in base = m * 10**(e-nd+1)
    base = Fraction(m) * Fraction(10) ** (e - nd + 1)
    v = base / PREFIXES[prefix]
    style = draw(st.integers(0, 2))
    s = _frac_to_decstr(v)
    return Q(base, fam, prefix, f"{dec_text(s, style)} {prefix}{fam}")


def _frac_to_decstr(v):
    """Exact decimal string of a Fraction whose denominator is 2^a5^b."""
    n, d = v.numerator, v.denominator
    # scale to integer
    k = 0
    while d != 1:
        n *= 10
        k += 1
        g = _gcd(n, d)
        n //= g
        d //= g
        if k > 60:
            raise ValueError("not a finite decimal")
    return f"{n}e-{k}" if k else str(n)


def _gcd(a, b):
    while b:
        a, b = b, a % b
    return a


# ------------------------------------------------------------------------------------------------ substances

REAL_LIQUIDS = [('H2O', 18.0153, 1.0), ('DMSO', 78.13, 1.1004), ('triethylamine', 101.19, 0.726),
                ('ethanol', 46.069, 0.789), ('chloroform', 119.38, 1.489), ('mercury-like', 200.59, 13.534)]
REAL_SOLIDS = [('NaCl', 58.4428), ('Sodium sulfate', 142.04), ('KCl', 74.5513), ('ATP', 507.18), ('LiH', 7.95)]


@st.composite
def sig_float(draw, lo, hi, digits=5):
    """log-uniform-ish positive float with few significant digits."""
    import math
    e = draw(st.integers(math.floor(math.log10(lo)), math.ceil(math.log10(hi)) - 1))
    m = draw(st.integers(10 ** (digits - 1), 10 ** digits - 1))
    v = float(Fraction(m, 10 ** (digits - 1)) * Fraction(10) ** e)
    return min(max(v, lo), hi)


@st.composite
def enzyme_sa(draw):
    """(sa in U/g as float, text) in both documented spellings, chosen so the base ratio is P-exact."""
    spelling = draw(st.sampled_from(['U/g', 'g/U']))
    m = draw(st.integers(1, 999))
    if spelling == 'U/g':
        p = draw(st.sampled_from(['', 'm', 'u', 'k']))
        e = draw(st.integers(-1, 2))
        v = Fraction(m) * Fraction(10) ** e                      # U per prefixed gram
        sa = v / PREFIXES[p]                                     # U/g
        if sa < 1 or sa > Fraction(10) ** 9:
            p, sa = 'm', v / PREFIXES['m']
        text = f"{dec_text(_frac_to_decstr(v), draw(st.integers(0, 1)))} U/{p}g"
        return float(sa), text
    else:
        p = draw(st.sampled_from(['', 'm', 'u']))
        e = draw(st.integers(-2, 1))
        v = Fraction(m) * Fraction(10) ** e                      # prefixed grams per U
        gpu = v * PREFIXES[p]                                    # g/U
        if gpu < Fraction(1, 10 ** 7) or gpu > 1:
            p, gpu = 'm', v * PREFIXES['m']
            if gpu < Fraction(1, 10 ** 7):
                gpu = Fraction(1, 10 ** 4)
                v = gpu / PREFIXES['m']
        text = f"{dec_text(_frac_to_decstr(v), draw(st.integers(0, 1)))} {p}g/U"
        return float(1 / gpu), text


@st.composite
def substance_pool(draw, cfg, min_extra=0, max_extra=3, fancy_names=True):
    """>= one liquid, one solid, one enzyme, a second liquid; then extras. Unique names."""
    kinds = ['liquid', 'solid', 'enzyme', 'liquid'] + draw(
        st.lists(st.sampled_from(['solid', 'liquid', 'enzyme']), min_size=min_extra, max_size=max_extra))
    subs = []
    used = set()
    for i, kind in enumerate(kinds):
        real = draw(st.booleans())
        if kind == 'liquid':
            if real:
                name, mw, dens = draw(st.sampled_from(REAL_LIQUIDS))
            else:
                name, mw, dens = f"liq{i}", draw(sig_float(1, 1e4)), draw(sig_float(0.3, 20, 4))
            s = Sub('liquid', name, mw, dens)
        elif kind == 'solid':
            if real:
                name, mw = draw(st.sampled_from(REAL_SOLIDS))
            else:
                name, mw = f"sol{i}", draw(sig_float(1, 1e4))
            s = Sub('solid', name, mw)
        else:
            sa, text = draw(enzyme_sa())
            name = draw(st.sampled_from(['lipase', 'amylase', f"enz{i}"])) if fancy_names else f"enz{i}"
            s = Sub('enzyme', name, None, None, sa, text)
        if s.name in used:
            s.name = f"{s.name}_{i}"
        used.add(s.name)
        subs.append(fill_defaults(s, cfg))
    return subs


def make_real(pp, sub):
    if sub.kind == 'solid':
        return pp.Substance.solid(sub.name, sub.mw)
    if sub.kind == 'liquid':
        return pp.Substance.liquid(sub.name, sub.mw, sub.density)
    return pp.Substance.enzyme(sub.name, sub.sa_text)


# ------------------------------------------------------------------------------------------------ concentrations

def render_c(x_ratio, num, den, form, np_='', dp='', w=None, style=0, digits=6, wv='g/mL', P=10):
    """A concentration string for (approximately) the base ratio x_ratio (num base units per den base unit).

    The stated base ratio is an exact decimal with at most `digits` significant digits *and* at most P decimals,
    so that the parser's rounding to internal precision is the identity; the spelled number is derived from it
    exactly (all prefixes and denominator values are of the form 2^a 5^b).

    form: 'M' (mol/L), 'm' (mol/kg), 'ratio' (v pN/pD), 'ratiow' (v pN/w pD), '%w/w', '%v/v', '%w/v'
    """
    import math
    from refchem.model import split_unit
    if x_ratio <= 0:
        raise ValueError("positive ratios only")
    d_eff = max(1, min(digits, int(math.floor(math.log10(x_ratio))) + 1 + P))
    frac, _ = snap(x_ratio, d_eff)
    if frac * 10 ** P != int(frac * 10 ** P):      # snapping rounded up across a decade etc.: force P decimals
        frac = Fraction(round(float(frac) * 10 ** P), 10 ** P)
    if frac <= 0:
        frac = Fraction(1, 10 ** P)

    def txt(v):
        return dec_text(_frac_to_decstr(v), style)
    if form == 'M':
        return C(frac, 'mol', 'L', f"{txt(frac / PREFIXES[np_])} {np_}M", form)
    if form == 'm':
        return C(frac, 'mol', 'g', f"{txt(frac * 1000 / PREFIXES[np_])} {np_}m", form)
    if form in ('%w/w', '%v/v'):
        fam = 'g' if form == '%w/w' else 'L'
        return C(frac, fam, fam, f"{txt(frac * 100)} {form}", form)
    if form == '%w/v':
        a, b = wv.split('/')
        pa, fa = split_unit(a)
        pb, fb = split_unit(b)
        scale = PREFIXES[pa] / PREFIXES[pb]
        return C(frac, fa, fb, f"{txt(frac * 100 / scale)} %w/v", form)
    nump = np_ if num != 'U' else ''
    if form == 'ratio':
        v = frac * PREFIXES[dp] / PREFIXES[nump]
        return C(frac, num, den, f"{txt(v)} {nump}{num}/{dp}{den}", form)
    if form == 'ratiow':
        wfrac = Fraction(w)
        v = frac * wfrac * PREFIXES[dp] / PREFIXES[nump]
        return C(frac, num, den, f"{txt(v)} {nump}{num}/{w} {dp}{den}", form)
    raise ValueError(form)


@st.composite
def conc_spelling(draw, x_ratio, num, den, wv='g/mL', digits=6, min_ratio=1e-7):
    """Some spelling of (approximately) x_ratio in num/den; returns C with the exact stated value.

    The stated base ratio is kept >= min_ratio so that P-decimal rounding inside parse_concentration is benign.
    """
    if not (x_ratio > 0 and math.isfinite(x_ratio)):
        x_ratio = 1e-3          # e.g. per litre of a mixture without volume (density inf): some value, the library decides
    forms = ['ratio', 'ratio', 'ratiow']
    if (num, den) == ('mol', 'L'):
        forms += ['M', 'M']
    if (num, den) == ('mol', 'g'):
        forms += ['m', 'm']
    if (num, den) == ('g', 'g'):
        forms += ['%w/w']
    if (num, den) == ('L', 'L'):
        forms += ['%v/v']
    from refchem.model import split_unit
    a, b = wv.split('/')
    if (num, den) == (split_unit(a)[1], split_unit(b)[1]):
        forms += ['%w/v']
    form = draw(st.sampled_from(forms))
    style = draw(st.integers(0, 2))
    np_ = '' if num == 'U' else draw(st.sampled_from(PREFIX_POOL))
    dp = draw(st.sampled_from(PREFIX_POOL)) if den != 'U' else ''
    w = None
    if form == 'ratiow':
        w = draw(st.sampled_from(['10', '2', '0.5', '100', '2.5', '1e3', '4']))
    x = max(x_ratio, min_ratio)
    return render_c(x, num, den, form, np_, dp, w, style, digits, wv)
