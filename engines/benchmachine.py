"""RuleBasedStateMachine over the Bench IR; one thin rule per op kind (several copies = weight)."""
from hypothesis import strategies as st
from hypothesis.stateful import RuleBasedStateMachine, rule, initialize, precondition

from harness import env
from engines import bench, benchgen
from gen import basic
from refchem.model import RefCfg

DEFAULT_WEIGHTS = {'container': 2, 'plate': 1, 'transfer': 4, 'remove': 1, 'fill_to': 1, 'slice': 1}

GENS = {
    'container': benchgen.gen_container,
    'plate': benchgen.gen_plate,
    'transfer': benchgen.gen_transfer,
    'remove': benchgen.gen_remove,
    'fill_to': benchgen.gen_fill_to,
    'slice': benchgen.gen_slice,
    'create_solution': benchgen.gen_create_solution,
    'dilute': benchgen.gen_dilute,
    'create_solution_from': benchgen.gen_create_solution_from,
}


class Monitor:
    """Base class: a check overrides what it needs."""

    def start(self, world):
        pass

    def before(self, world, op):
        return None

    def after(self, world, op, pre, out):
        pass

    def finish(self, world):
        pass


def register_gen(name, fn):
    GENS[name] = fn


def make_machine(col, pp, profile, monitor):
    cfg = RefCfg()
    weights = dict(DEFAULT_WEIGHTS)
    weights.update(profile.get('weights', {}))

    class Bench(RuleBasedStateMachine):
        def __init__(self):
            super().__init__()
            env.clear_caches()
            self.world = None

        @initialize(data=st.data())
        def init_world(self, data):
            subs = data.draw(basic.substance_pool(cfg, max_extra=profile.get('max_extra_subs', 2)), label='subs')
            self.world = bench.World(pp, subs=subs)
            self.world.dup_wells = profile.get('dup_wells', False)
            col.label('histories')
            monitor.start(self.world)
            # a starting stock so that early steps have something to act on
            for _ in range(profile.get('initial_containers', 2)):
                self.do(benchgen.gen_container(self.world, data.draw, profile))
            for _ in range(profile.get('initial_plates', 1)):
                self.do(benchgen.gen_plate(self.world, data.draw, profile))
                # put something into the plate early so that plate-sourced operations have material
                for _ in range(profile.get('initial_fills', 2)):
                    cs = [i for i in self.world.indices('c') if benchgen._nonempty(self.world, self.world.pool[i].view)]
                    if not cs:
                        break
                    pi = self.world.indices('p')[-1]
                    op = {'op': 'transfer', 'src': {'i': data.draw(st.sampled_from(cs))},
                          'dst': benchgen.region_ref(self.world, data.draw, pi), 'q': None}
                    op['q'] = benchgen.gen_transfer_quantity(self.world, data.draw, dict(profile, q_modes=['frac']), op)
                    self.do(op)
            # a slice object held from the start (a caller keeping `s = plate[...]` and using it again and again)
            for _ in range(profile.get('initial_slices', 0)):
                self.do(benchgen.gen_slice(self.world, data.draw, profile))

        def do(self, op):
            if op is None:
                col.label('gen:none')
                return
            world = self.world
            pre = monitor.before(world, op)
            out = bench.execute(world, op)
            col.label(f"op:{op['op']}:{'ok' if out.ok else type(out.exc).__name__}")
            monitor.after(world, op, pre, out)

        def teardown(self):
            if self.world is not None:
                monitor.finish(self.world)

    def mk(kind):
        def body(self, data):
            for _ in range(profile.get('repeat', {}).get(kind, 1)):
                op = GENS[kind](self.world, data.draw, profile)
                self.do(op)
        return body

    attrs = {}
    for kind, wgt in weights.items():
        for i in range(wgt):
            fn = mk(kind)
            fn.__name__ = f"{kind}_{i}"
            attrs[fn.__name__] = rule(data=st.data())(fn)
    return type('BenchMachine', (Bench,), attrs)


def replay_history(col, pp, case, monitor):
    """Re-execute a saved history through executor + monitor, no Hypothesis."""
    env.clear_caches()
    world = bench.World(pp, subs_json=case['subs'])
    monitor.start(world)
    for op in case['ops']:
        try:
            pre = monitor.before(world, op)
            out = bench.execute(world, op)
        except IndexError:
            # an earlier op no longer returns what it returned when the case was recorded (e.g. it is refused
            # now), so later pool references do not exist: the recorded history does not apply any further
            break
        monitor.after(world, op, pre, out)
    monitor.finish(world)
    return world
