"""State-aware generators of Bench IR ops. `draw` is Hypothesis' data.draw; every random choice goes through it."""
import math

from hypothesis import strategies as st

from gen import basic
from gen.basic import render_q, PREFIX_POOL
from refchem import selectors as rsel
from refchem.model import PREFIXES

CAPS = ['50 uL', '0.2 mL', '2 mL', '1e4 uL', '0.05 L', '1.5 mL', '300 µL', '25 mL', '1 L', '0.5 dL', '10 cL']
PLATE_CAPS = ['50 uL', '0.2 mL', '2 mL', '1e4 uL', '300 µL', '1.5 mL']


def cap_storage(cfg, text):
    v, u = text.split(' ')
    return float(v) * float(PREFIXES[u[:-1]]) / cfg.vol_mult


# ------------------------------------------------------------------------------------------------ selectors

def idx_spelling(draw, pos, labels):
    """0-based position -> 1-based int or label."""
    return labels[pos] if draw(st.booleans()) else pos + 1


def rect_selector(draw, rows, cols, r0, h, c0, w, allow_short=True):
    """A selector denoting the rectangle rows r0..r0+h-1, cols c0..c0+w-1 (0-based), in a random spelling."""
    nr, nc = len(rows), len(cols)
    if h == 1 and w == 1:
        form = draw(st.sampled_from(['wstr', 'wtup', 'wtup', 'rc']))
        if form == 'wstr':
            return {'t': 'wstr', 'r': rows[r0], 'c': cols[c0]}
        if form == 'wtup':
            return {'t': 'wtup', 'r': idx_spelling(draw, r0, rows), 'c': idx_spelling(draw, c0, cols)}

    def axis(lo, n, labels):
        full = (lo == 0 and n == len(labels))
        a = None if (lo == 0 and draw(st.booleans())) else idx_spelling(draw, lo, labels)
        b = None if (lo + n == len(labels) and draw(st.booleans())) else idx_spelling(draw, lo + n - 1, labels)
        if n == 1 and not full and draw(st.booleans()):
            return idx_spelling(draw, lo, labels)
        return {'a': a, 'b': b, 'k': None}
    if allow_short and c0 == 0 and w == nc and draw(st.booleans()):
        if h == 1 and draw(st.booleans()):
            return {'t': 'row', 'r': idx_spelling(draw, r0, rows)}
        if h == nr and r0 == 0 and draw(st.booleans()):
            return {'t': 'all'}
        ax = axis(r0, h, rows)
        if isinstance(ax, dict):
            return {'t': 'rows', 's': ax}
    ra, ca = axis(r0, h, rows), axis(c0, w, cols)
    if not isinstance(ra, dict) and not isinstance(ca, dict):
        return {'t': 'wtup', 'r': ra, 'c': ca}
    return {'t': 'rc', 'r': ra, 'c': ca}


def any_selector(draw, rows, cols, max_list=3, dups=False):
    """A valid selector of any documented form (dups: a list may name a well more than once)."""
    nr, nc = len(rows), len(cols)
    form = draw(st.sampled_from(['rect', 'rect', 'rect', 'stepped', 'list', 'all', 'plate', 'well']))
    if form in ('all', 'plate'):
        return {'t': form}
    if form == 'well':
        return rect_selector(draw, rows, cols, draw(st.integers(0, nr - 1)), 1, draw(st.integers(0, nc - 1)), 1)
    if form == 'list':
        n = draw(st.integers(1, max_list))
        items = []
        seen = set()
        for _ in range(n):
            r, c = draw(st.integers(0, nr - 1)), draw(st.integers(0, nc - 1))
            if (r, c) in seen and not dups:
                continue            # duplicate wells in one list: only where asked for (per-well semantics undocumented)
            seen.add((r, c))
            if draw(st.booleans()):
                items.append({'t': 'wstr', 'r': rows[r], 'c': cols[c]})
            else:
                items.append({'t': 'wtup', 'r': idx_spelling(draw, r, rows), 'c': idx_spelling(draw, c, cols)})
        return {'t': 'list', 'items': items}
    r0 = draw(st.integers(0, nr - 1))
    h = draw(st.integers(1, nr - r0))
    c0 = draw(st.integers(0, nc - 1))
    w = draw(st.integers(1, nc - c0))
    if form == 'stepped' and (h > 2 or w > 2):
        kr = draw(st.integers(1, 3)) if h > 2 else None
        kc = draw(st.integers(1, 3)) if w > 2 else None
        return {'t': 'rc',
                'r': {'a': idx_spelling(draw, r0, rows), 'b': idx_spelling(draw, r0 + h - 1, rows), 'k': kr},
                'c': {'a': idx_spelling(draw, c0, cols), 'b': idx_spelling(draw, c0 + w - 1, cols), 'k': kc}}
    return rect_selector(draw, rows, cols, r0, h, c0, w)


def list_selector(draw, rows, cols, n, world=None, pi=None):
    """A list naming n distinct wells (non-empty ones first when a world is given, so that the request is feasible)."""
    nr, nc = len(rows), len(cols)
    coords = [(r, c) for r in range(nr) for c in range(nc)]
    order = draw(st.permutations(coords))
    if world is not None:
        v = world.pool[pi].view
        order = sorted(order, key=lambda rc: not _nonempty(world, v['wells'][rc[0]][rc[1]]))
    items = []
    for r, c in order[:n]:
        if draw(st.booleans()):
            items.append({'t': 'wstr', 'r': rows[r], 'c': cols[c]})
        else:
            items.append({'t': 'wtup', 'r': idx_spelling(draw, r, rows), 'c': idx_spelling(draw, c, cols)})
    return {'t': 'list', 'items': items}


# ------------------------------------------------------------------------------------------------ constructors

def gen_container(world, draw, profile):
    cfg = world.cfg
    name = world.fresh_name('c')
    n = draw(st.integers(0, 4))
    cap = draw(st.one_of(st.none(), st.sampled_from(CAPS)))
    cap_s = math.inf if cap is None else cap_storage(cfg, cap)
    contents = []
    room = cap_s
    chosen = draw(st.lists(st.integers(0, len(world.subs) - 1), min_size=n, max_size=n, unique=True)) if n else []
    for si in chosen:
        sub = world.subs[si]
        fams = ['U', 'g', 'L'] if sub.enzyme else ['L', 'g', 'mol']
        fam = draw(st.sampled_from(fams))
        # pick a volume share then express it in the chosen family
        if math.isinf(room):
            vol = 10 ** draw(st.floats(profile.get('min_log_uL', 0), 5.5))   # 1 uL .. ~300 mL
            vol = vol * 1e-6 / cfg.vol_mult
        else:
            vol = room * draw(st.floats(0.01, 0.6))
        fL = sub.factor('L')
        if fL > 0:
            base = vol * cfg.vol_mult / fL
            if sub.enzyme:
                base = min(base, 5.0)
        else:
            base = 10 ** draw(st.floats(-7, -2))
        x = base * sub.factor(fam)
        prefix = draw(st.sampled_from(PREFIX_POOL))
        q = render_q(x, fam, prefix, draw(st.integers(0, 2)), digits=draw(st.sampled_from([3, 6, 12])))
        if float(q.value) <= 0:
            continue
        contents.append([si, q.text])
        if fL > 0:
            room -= float(q.value) / sub.factor(fam) * fL / cfg.vol_mult
    if profile.get('ctor_faults') and draw(st.integers(0, 5)) == 0:
        fault = draw(st.sampled_from(['over', 'neg', 'badcap', 'near']))
        if fault == 'badcap':
            cap = draw(st.sampled_from(['0 mL', '-5 mL', '0.0 L', '-1e-3 uL']))
        elif fault == 'neg' and contents:
            si, q = contents[-1]
            contents[-1] = [si, '-' + q]
        elif fault in ('over', 'near') and cap is not None and not math.isinf(room):
            si = draw(st.integers(0, len(world.subs) - 1))
            sub = world.subs[si]
            if sub.factor('L') > 0:
                f = draw(st.floats(1.05, 3.0)) if fault == 'over' else draw(st.floats(0.9, 1.1))
                x = max(room, 1e-3) * cfg.vol_mult * f
                contents.append([si, render_q(x, 'L', draw(st.sampled_from(PREFIX_POOL)), 0, 6).text])
    op = {'op': 'container', 'name': name, 'cap': cap, 'contents': contents if (contents or draw(st.booleans())) else None}
    return op


def gen_plate(world, draw, profile):
    maxdim = profile.get('max_dim', 4)
    nr, nc = draw(st.integers(1, maxdim)), draw(st.integers(1, maxdim))
    custom = draw(st.integers(0, 3)) == 0
    rows = nr
    cols = nc
    if custom:
        rows = [f"r{i + 1}" for i in range(nr)] if draw(st.booleans()) else nr
        cols = [f"k{chr(97 + i)}" for i in range(nc)] if draw(st.booleans()) else nc
        if draw(st.integers(0, 2)) == 0:
            # labels that look like numbers but do not sit at that position (sample numbers, descending columns):
            # as a str they are labels, only an int is a position
            cols = [str(nc - i) for i in range(nc)] if nc > 1 else ['7']
            if draw(st.booleans()):
                rows = [str((i + 1) % nr + 1) for i in range(nr)] if nr > 1 else ['3']
    return {'op': 'plate', 'name': world.fresh_name('p'), 'cap': draw(st.sampled_from(profile.get('plate_caps', PLATE_CAPS))),
            'rows': rows, 'cols': cols}


# ------------------------------------------------------------------------------------------------ transfer

def _nonempty(world, v):
    return any(a > 0 for _, a in v['contents'])


def nonempty_rect(world, draw, pi):
    """(r0, h, c0, w) of a rectangle of plate pool[pi] whose wells are all non-empty, or None."""
    v = world.pool[pi].view
    nr, nc = v['shape']
    ne = [[_nonempty(world, v['wells'][r][c]) for c in range(nc)] for r in range(nr)]
    coords = [(r, c) for r in range(nr) for c in range(nc) if ne[r][c]]
    if not coords:
        return None
    r0, c0 = draw(st.sampled_from(coords))
    wmax = 1
    while c0 + wmax < nc and ne[r0][c0 + wmax]:
        wmax += 1
    w = draw(st.integers(1, wmax))
    hmax = 1
    while r0 + hmax < nr and all(ne[r0 + hmax][c0 + j] for j in range(w)):
        hmax += 1
    h = draw(st.integers(1, hmax))
    return (r0, h, c0, w)


def source_region(world, draw, pi):
    """Region to draw from: mostly one whose wells all hold something (so that the request is feasible)."""
    if draw(st.integers(0, 5)) != 0:
        rect = nonempty_rect(world, draw, pi)
        if rect is not None:
            return region_ref(world, draw, pi, rect)
    return region_ref(world, draw, pi)


def sub_selector(draw, rows, cols, r0, h, c0, w):
    """the rectangle as a slice of a (larger or equal) slice: plate[base][a:b, c:d] (0-based, end-exclusive)"""
    nr, nc = len(rows), len(cols)
    rb0 = draw(st.integers(0, r0))
    rb1 = draw(st.integers(r0 + h - 1, nr - 1))
    cb0 = draw(st.integers(0, c0))
    cb1 = draw(st.integers(c0 + w - 1, nc - 1))
    base = rect_selector(draw, rows, cols, rb0, rb1 - rb0 + 1, cb0, cb1 - cb0 + 1)

    def part(lo, n, total):
        if n == 1 and draw(st.integers(0, 2)) == 0:
            return lo
        a = None if (lo == 0 and draw(st.booleans())) else lo
        b = None if (lo + n == total and draw(st.booleans())) else lo + n
        return {'a': a, 'b': b}
    return {'t': 'sub', 'base': base, 'r': part(r0 - rb0, h, rb1 - rb0 + 1), 'c': part(c0 - cb0, w, cb1 - cb0 + 1)}


def region_ref(world, draw, pi, want=None):
    """A reference to a region of plate pool[pi]: inline selector or (if available) a pooled slice object."""
    pe = world.pool[pi]
    if want is not None and draw(st.integers(0, 7)) == 0:
        r0, h, c0, w = want
        return {'i': pi, 'sel': sub_selector(draw, pe.view['rows'], pe.view['cols'], r0, h, c0, w)}
    pooled = [i for i, e in enumerate(world.pool) if e.kind == 's' and e.meta['plate'] == pi]
    if want is None and pooled and draw(st.integers(0, 3)) == 0:
        return {'i': draw(st.sampled_from(pooled))}
    if want is not None:
        r0, h, c0, w = want
        return {'i': pi, 'sel': rect_selector(draw, pe.view['rows'], pe.view['cols'], r0, h, c0, w)}
    if draw(st.integers(0, getattr(world, 'sub_one_in', 10) - 1)) == 0:      # a slice of a slice
        nr, nc = pe.view['shape']
        r0 = draw(st.integers(0, nr - 1))
        h = draw(st.integers(1, nr - r0))
        c0 = draw(st.integers(0, nc - 1))
        w = draw(st.integers(1, nc - c0))
        return {'i': pi, 'sel': sub_selector(draw, pe.view['rows'], pe.view['cols'], r0, h, c0, w)}
    return {'i': pi, 'sel': any_selector(draw, pe.view['rows'], pe.view['cols'], dups=getattr(world, 'dup_wells', False))}


def gen_transfer(world, draw, profile):
    from engines.bench import well_views, pairing
    cs = world.indices('c')
    ps = world.indices('p')
    forms = []
    if cs:
        forms += ['c2c', 'c2c']
    if cs and ps:
        forms += ['c2s', 'c2s', 's2c', 's2c']
    if ps:
        forms += ['w2s', 's2w', 's2s', 's2s', 'same', 'same', 'badshape']
    pooled = [i for i, e in enumerate(world.pool) if e.kind == 's' and (world.live is None or e.meta['plate'] in world.live)]
    if pooled:
        # slice objects kept in the pool are used again and again (a caller holding on to `s = plate[...]`)
        forms += ['ps2s', 'ps2c', 'c2ps'] * 2 if cs else ['ps2s'] * 2
    if not forms:
        return None
    form = draw(st.sampled_from(forms))
    if form in ('ps2s', 'ps2c', 'c2ps'):
        si = draw(st.sampled_from(pooled))
        se = world.pool[si]
        try:
            coords, shape = rsel.resolve(se.meta['sel'], world.pool[se.meta['plate']].view['rows'],
                                         world.pool[se.meta['plate']].view['cols'])
        except rsel.Invalid:
            return None
        if form == 'ps2c':
            op = {'op': 'transfer', 'src': {'i': si}, 'dst': {'i': draw(st.sampled_from(cs))}, 'q': None}
        elif form == 'c2ps':
            ne = [i for i in cs if _nonempty(world, world.pool[i].view)] or cs
            op = {'op': 'transfer', 'src': {'i': draw(st.sampled_from(ne))}, 'dst': {'i': si}, 'q': None}
        else:
            # an equal-shape region of some plate (possibly the slice's own plate), or a single well
            p2 = draw(st.sampled_from(ps))
            nr2, nc2 = world.pool[p2].view['shape']
            if len(shape) == 2 and shape[0] <= nr2 and shape[1] <= nc2 and draw(st.integers(0, 3)):
                h, w_ = shape
                dst = region_ref(world, draw, p2, (draw(st.integers(0, nr2 - h)), h, draw(st.integers(0, nc2 - w_)), w_))
            else:
                dst = region_ref(world, draw, p2, (draw(st.integers(0, nr2 - 1)), 1, draw(st.integers(0, nc2 - 1)), 1))
            op = {'op': 'transfer', 'src': {'i': si}, 'dst': dst, 'q': None}
        op['q'] = gen_transfer_quantity(world, draw, profile, op)
        return op
    nonempty_c = [i for i in cs if _nonempty(world, world.pool[i].view)]

    def pick_c(prefer_nonempty):
        if prefer_nonempty and nonempty_c and draw(st.integers(0, 9)) != 0:
            return draw(st.sampled_from(nonempty_c))
        return draw(st.sampled_from(cs))

    def pick_p(prefer_nonempty):
        if prefer_nonempty:
            ne = [i for i in ps if any(_nonempty(world, w) for row in world.pool[i].view['wells'] for w in row)]
            if ne and draw(st.integers(0, 9)) != 0:
                return draw(st.sampled_from(ne))
        return draw(st.sampled_from(ps))

    if form == 'c2c':
        src = {'i': pick_c(True)}
        dst = {'i': pick_c(False)}
        if src['i'] == dst['i'] and not profile.get('self_transfer', False):
            others = [i for i in cs if i != src['i']]
            if not others:
                return None
            dst = {'i': draw(st.sampled_from(others))}
    elif form == 'c2s':
        src = {'i': pick_c(True)}
        dst = region_ref(world, draw, pick_p(False))
    elif form == 's2c':
        src = source_region(world, draw, pick_p(True))
        dst = {'i': pick_c(False)}
    elif form in ('w2s', 's2w', 's2s', 'badshape'):
        p1, p2 = pick_p(True), pick_p(False)
        if p1 == p2:
            form = 'same'
        else:
            v1, v2 = world.pool[p1].view, world.pool[p2].view
            (nr1, nc1), (nr2, nc2) = v1['shape'], v2['shape']
            if form == 'w2s':
                rect = nonempty_rect(world, draw, p1)
                if rect is not None:
                    src = region_ref(world, draw, p1, (rect[0], 1, rect[2], 1))
                else:
                    src = region_ref(world, draw, p1, (draw(st.integers(0, nr1 - 1)), 1, draw(st.integers(0, nc1 - 1)), 1))
                dst = region_ref(world, draw, p2)
            elif form == 's2w':
                src = source_region(world, draw, p1)
                dst = region_ref(world, draw, p2, (draw(st.integers(0, nr2 - 1)), 1, draw(st.integers(0, nc2 - 1)), 1))
            elif form == 's2s':
                rect = nonempty_rect(world, draw, p1) if draw(st.integers(0, 5)) else None
                if rect is not None:
                    r0, h, c0, w = rect
                    h, w = min(h, nr2), min(w, nc2)
                    src = region_ref(world, draw, p1, (r0, h, c0, w))
                else:
                    h = draw(st.integers(1, min(nr1, nr2)))
                    w = draw(st.integers(1, min(nc1, nc2)))
                    src = region_ref(world, draw, p1, (draw(st.integers(0, nr1 - h)), h, draw(st.integers(0, nc1 - w)), w))
                dst = region_ref(world, draw, p2, (draw(st.integers(0, nr2 - h)), h, draw(st.integers(0, nc2 - w)), w))
            else:
                src = region_ref(world, draw, p1)
                dst = region_ref(world, draw, p2)
                if nr1 * nc1 >= 2 and nr2 * nc2 >= 2 and max(nr1 * nc1, nr2 * nc2) >= 3 and draw(st.booleans()):
                    # two lists of wells of different lengths (>= 2 each): no pairing rule covers them
                    n1 = draw(st.integers(2, min(4, nr1 * nc1)))
                    n2 = draw(st.sampled_from([k for k in range(2, min(4, nr2 * nc2) + 1) if k != n1] or [0]))
                    if n2:
                        src = {'i': p1, 'sel': list_selector(draw, v1['rows'], v1['cols'], n1, world, p1)}
                        dst = {'i': p2, 'sel': list_selector(draw, v2['rows'], v2['cols'], n2)}
    if form == 'same':
        p = pick_p(True)
        v = world.pool[p].view
        nr, nc = v['shape']
        h, w = draw(st.integers(1, nr)), draw(st.integers(1, nc))
        kind = draw(st.sampled_from(['rect', 'rect', 'one2many', 'many2one', 'free']))
        rect = nonempty_rect(world, draw, p) if draw(st.integers(0, 5)) else None
        if kind == 'rect':
            if rect is not None:
                r0, h, c0, w = rect
                src = region_ref(world, draw, p, rect)
            else:
                src = region_ref(world, draw, p, (draw(st.integers(0, nr - h)), h, draw(st.integers(0, nc - w)), w))
            dst = region_ref(world, draw, p, (draw(st.integers(0, nr - h)), h, draw(st.integers(0, nc - w)), w))
        elif kind == 'one2many':
            if rect is not None:
                src = region_ref(world, draw, p, (rect[0], 1, rect[2], 1))
            else:
                src = region_ref(world, draw, p, (draw(st.integers(0, nr - 1)), 1, draw(st.integers(0, nc - 1)), 1))
            dst = region_ref(world, draw, p, (draw(st.integers(0, nr - h)), h, draw(st.integers(0, nc - w)), w))
        elif kind == 'many2one':
            src = region_ref(world, draw, p, rect if rect is not None else
                             (draw(st.integers(0, nr - h)), h, draw(st.integers(0, nc - w)), w))
            dst = region_ref(world, draw, p, (draw(st.integers(0, nr - 1)), 1, draw(st.integers(0, nc - 1)), 1))
        else:
            src = region_ref(world, draw, p)
            dst = region_ref(world, draw, p)
    op = {'op': 'transfer', 'src': src, 'dst': dst, 'q': None}
    op['q'] = gen_transfer_quantity(world, draw, profile, op)
    return op


def gen_transfer_quantity(world, draw, profile, op):
    """Quantity as a fraction of what is feasible according to the reference (state-aware, no assume())."""
    from engines.bench import well_views
    ref, cfg = world.ref, world.cfg
    try:
        srcs, sp, sshape = well_views(world, op['src'])
        dsts, dp, dshape = well_views(world, op['dst'])
    except rsel.Invalid:
        srcs, dsts = [], []
    fams_present = set(('L', 'g', 'mol', 'U')) if srcs else set()
    for _, v in srcs:
        b = world.base(v)
        fams_present &= {fam for fam in ('L', 'g', 'mol', 'U') if ref.size(b, fam) > 0}
    pool = sorted(fams_present) * 6 + ['L', 'g', 'mol', 'U']
    fam = draw(st.sampled_from(pool))
    sizes = [ref.size(world.base(v), fam) for _, v in srcs]
    pos = [s for s in sizes if s > 0]
    n_d = max(1, len(dsts))
    n_s = max(1, len(srcs))
    if pos:
        qmax = min(sizes) if min(sizes) > 0 else min(pos)
        if len(srcs) == 1 and n_d > 1:
            qmax = qmax / n_d
        # destination room (volume), translated through the source's volume per family unit
        try:
            room = min((v['cap'] - ref.volume_storage(world.base(v))) for _, v in dsts) if dsts else math.inf
            b0 = world.base(srcs[0][1])
            vol_per = ref.volume_storage(b0) / ref.size(b0, fam) if ref.size(b0, fam) > 0 else 0
            if vol_per > 0 and not math.isinf(room):
                lim = max(room, 0) / vol_per
                if len(dsts) == 1 and n_s > 1:
                    lim = lim / n_s
                if lim > 0:
                    qmax = min(qmax, lim)
        except Exception:
            pass
    else:
        qmax = 10 ** draw(st.floats(-7, -3))
    mode = draw(st.sampled_from(profile.get('q_modes', ['frac'] * 7 + ['over', 'zero', 'neg'])))
    if mode == 'frac':
        f = draw(st.sampled_from([None, None, None, 0.5, 0.25, 0.1]))
        if f is None:
            f = draw(st.floats(0.02, 0.9)) if profile.get('safe_margins') else draw(st.floats(0.001, 0.999))
    elif mode == 'over':
        f = draw(st.floats(1.1, 1.6)) if profile.get('safe_margins') else draw(st.floats(1.001, 1.6))
    elif mode == 'whole':
        f = 1.0
    elif mode == 'zero':
        f = 0.0
    else:
        f = -draw(st.floats(0.01, 0.9))
    x = f * qmax
    if not math.isfinite(x):
        x = 1e-6 * (1 if f >= 0 else -1)      # e.g. a mass per volume of a source without volume (density inf)
    prefix = draw(st.sampled_from(PREFIX_POOL))
    q = render_q(x, fam, prefix, draw(st.integers(0, 2)), digits=draw(st.sampled_from([2, 4, 12])))
    return q.text


# ------------------------------------------------------------------------------------------------ other ops

def pick_target(world, draw, kinds=('c', 'p'), nonempty=True):
    """Reference to a container, plate, or region of a plate."""
    cs = world.indices('c') if 'c' in kinds else []
    ps = world.indices('p') if 'p' in kinds else []
    if nonempty:
        cs2 = [i for i in cs if _nonempty(world, world.pool[i].view)]
        ps2 = [i for i in ps if any(_nonempty(world, w) for row in world.pool[i].view['wells'] for w in row)]
        if (cs2 or ps2) and draw(st.integers(0, 7)) != 0:
            cs, ps = cs2, ps2
    opts = (['c'] * (2 if cs else 0)) + (['p'] * (3 if ps else 0))
    if not opts:
        return None
    k = draw(st.sampled_from(opts))
    if k == 'c':
        return {'i': draw(st.sampled_from(cs))}
    return region_ref(world, draw, draw(st.sampled_from(ps)))


def present_subs(world, ref_):
    from engines.bench import well_views
    names = set()
    for _, v in well_views(world, ref_)[0]:
        for n, a in v['contents']:
            names.add(n)
    return [world.by_name[n] for n in sorted(names)]


def gen_remove(world, draw, profile):
    tgt = pick_target(world, draw)
    if tgt is None:
        return None
    present = present_subs(world, tgt)
    mode = draw(st.sampled_from(['sub', 'sub', 'cls', 'absent']))
    if mode == 'sub' and present:
        what = {'s': draw(st.sampled_from(present))}
    elif mode == 'absent':
        what = {'s': draw(st.integers(0, len(world.subs) - 1))}
    else:
        what = {'cls': draw(st.sampled_from([1, 2, 3]))}
    return {'op': 'remove', 'obj': tgt, 'what': what}


def liquid_indices(world):
    return [i for i, s in enumerate(world.subs) if s.kind == 'liquid']


def gen_fill_to(world, draw, profile):
    from engines.bench import well_views
    tgt = pick_target(world, draw, nonempty=draw(st.booleans()))
    if profile.get('fill_plate_bias') and world.indices('p') and draw(st.integers(0, 3)):
        tgt = {'i': draw(st.sampled_from(world.indices('p'))), 'sel': {'t': draw(st.sampled_from(['all', 'plate']))}}
    if tgt is None:
        return None
    ref, cfg = world.ref, world.cfg
    non_enzymes = [i for i, s_ in enumerate(world.subs) if not s_.enzyme]
    solvent = draw(st.sampled_from(liquid_indices(world))) if (draw(st.integers(0, 5)) or not profile.get(
        'enzyme_fill_solvent')) else draw(st.integers(0, len(world.subs) - 1))
    if not draw(st.integers(0, 7)):
        solvent = draw(st.sampled_from(non_enzymes))
    fam = draw(st.sampled_from(['L', 'L', 'g', 'mol', 'U'] if profile.get('fill_U') else ['L', 'L', 'g', 'mol']))
    wv = well_views(world, tgt)[0]
    cur = [ref.size(world.base(v), fam) for _, v in wv]
    cap = min(v['cap'] for _, v in wv)
    hi = max(cur) if cur else 0.0
    # capacity expressed in the fill unit for pure solvent added on top of the fullest well
    ssub = world.subs[solvent]
    mode = draw(st.sampled_from(profile.get('fill_modes', ['fit'] * 6 + ['below', 'over', 'zero', 'neg'])))
    if math.isinf(cap) or ssub.factor('L') == 0:
        top = hi * draw(st.floats(1.05 if profile.get('safe_margins') else 1.0, 3.0)) + (10 ** draw(st.floats(-6, -1)) if hi == 0 else 0)
        room_f = math.inf
    else:
        # room (storage volume) of the fullest well, in the fill unit when topping up with pure solvent
        rooms = [(v['cap'] - ref.volume_storage(world.base(v))) for _, v in wv]
        room = max(min(rooms), 0.0) * cfg.vol_mult                    # litres
        per = ssub.factor(fam) / ssub.factor('L') if ssub.factor('L') > 0 else 0.0
        room_f = room * per
        top = hi + room_f * (draw(st.floats(0.05, 0.9)) if profile.get('safe_margins') else draw(st.floats(0.0, 1.0)))
    if mode == 'fit':
        x = top
    elif mode == 'below':
        x = hi * draw(st.floats(0.1, 0.9)) if hi > 0 else 0.0
    elif mode == 'over':
        x = (hi + room_f) * draw(st.floats(1.1, 2.0)) if not math.isinf(room_f) else top
    elif mode == 'zero':
        x = 0.0
    else:
        x = -(hi + 1e-6) * draw(st.floats(0.1, 1.0))
    prefix = draw(st.sampled_from(PREFIX_POOL))
    q = render_q(x, fam, prefix, draw(st.integers(0, 2)), digits=draw(st.sampled_from([3, 6, 12])))
    return {'op': 'fill_to', 'obj': tgt, 'solvent': solvent, 'q': q.text}


def gen_slice(world, draw, profile):
    ps = world.indices('p')
    if not ps:
        return None
    pi = draw(st.sampled_from(ps))
    pe = world.pool[pi]
    sel = any_selector(draw, pe.view['rows'], pe.view['cols'], dups=getattr(world, 'dup_wells', False))
    if sel['t'] == 'plate':
        sel = {'t': 'all'}
    return {'op': 'slice', 'plate': pi, 'sel': sel}


# ------------------------------------------------------------------------------------------------ solutions

NUM_FAMS = {'solid': ['mol', 'g', 'L'], 'liquid': ['mol', 'g', 'L'], 'enzyme': ['U', 'g']}


def gen_create_solution(world, draw, profile):
    """Mostly feasible by construction: sketch a mixture, read off its stated values."""
    ref, cfg = world.ref, world.cfg
    liquids = liquid_indices(world)
    n = draw(st.sampled_from([1, 1, 1, 2, 3]))
    cand = [i for i in range(len(world.subs))]
    solutes = draw(st.lists(st.sampled_from(cand), min_size=n, max_size=n, unique=True))
    solv_cands = [i for i in liquids if i not in solutes]
    if not solv_cands:
        return None
    use_container = False
    solvent = {'s': draw(st.sampled_from(solv_cands))}
    if profile.get('solvent_containers', True) and draw(st.integers(0, 3)) == 0:
        # a container holding at least one liquid and none of the solutes
        ok = []
        for i in world.indices('c'):
            v = world.pool[i].view
            names = {nm for nm, a in v['contents'] if a > 0}
            holds_solute = bool(names & {world.subs[s].name for s in solutes})
            if names and (not holds_solute or profile.get('solvent_may_hold_solute')) and \
                    any(world.ref.subs[nm].kind == 'liquid' for nm in names) and v['vol'] > 100:
                ok.append(i)
        if ok:
            solvent = {'c': draw(st.sampled_from(ok))}
            use_container = True
    # sketch: total volume and solute shares
    if use_container:
        sv = world.pool[solvent['c']].view
        vtot = sv['vol'] * cfg.vol_mult * draw(st.floats(0.05, 0.6))        # litres
        if profile.get('solution_over') and draw(st.integers(0, 1)) == 0:
            vtot = sv['vol'] * cfg.vol_mult * draw(st.floats(1.02, 1.4))    # more than the container holds by now
        sbase = world.base(sv)
        stot = ref.size(sbase, 'L')
        mix = {nm: a / stot * vtot for nm, a in sbase.items()}            # solvent part (scaled later)
    else:
        vtot = 10 ** draw(st.floats(-4, -1.3))                              # 0.1 mL .. 50 mL
        ssub = world.subs[solvent['s']]
        mix = {ssub.name: vtot / ssub.factor('L')}
    for si in solutes:
        sub = world.subs[si]
        share = draw(st.floats(0.002, 0.15))
        if sub.factor('L') > 0:
            amt = share * vtot / sub.factor('L')
            if sub.enzyme:
                amt = min(amt, 3.0)
        else:
            amt = share * vtot * 1000 / sub.factor('g') if sub.factor('g') else share
        mix[sub.name] = amt
    which = draw(st.sampled_from(['ct', 'cq', 'qt'] if n == 1 else ['ct', 'qt']))
    kw = {}
    if 'c' in which:
        cs = []
        for si in solutes:
            sub = world.subs[si]
            num = draw(st.sampled_from(NUM_FAMS[sub.kind]))
            den = draw(st.sampled_from(['L', 'L', 'g', 'mol']))
            x = ref.conc(mix, sub.name, num, den)
            c = draw(basic.conc_spelling(x, num, den, cfg.wv))
            cs.append(c.text)
        kw['concentration'] = cs[0] if (n == 1 and draw(st.booleans())) else cs
    if 'q' in which:
        qs = []
        for si in solutes:
            sub = world.subs[si]
            fam = draw(st.sampled_from(NUM_FAMS[sub.kind]))
            x = mix[sub.name] * sub.factor(fam)
            qs.append(render_q(x, fam, draw(st.sampled_from(PREFIX_POOL)), draw(st.integers(0, 2)), 6).text)
        kw['quantity'] = qs[0] if (n == 1 and draw(st.booleans())) else qs
    if 't' in which:
        fam = draw(st.sampled_from(['L', 'L', 'g', 'mol']))
        x = ref.size(mix, fam)
        kw['total_quantity'] = render_q(x, fam, draw(st.sampled_from(PREFIX_POOL)), draw(st.integers(0, 2)), 6).text
    return {'op': 'create_solution', 'solutes': solutes, 'single': n == 1 and draw(st.booleans()),
            'solvent': solvent, 'kw': kw, 'name': world.fresh_name('sol') if draw(st.booleans()) else None}


def _solution_containers(world, need_liquid=True):
    """pool indices of containers with a non-enzyme solute and at least two substances"""
    out = []
    for i in world.indices('c'):
        v = world.pool[i].view
        pos = [nm for nm, a in v['contents'] if a > 0]
        if len(pos) >= 2 and any(world.ref.subs[nm].kind != 'enzyme' for nm in pos):
            out.append(i)
    return out


def gen_dilute(world, draw, profile):
    ref, cfg = world.ref, world.cfg
    cands = _solution_containers(world)
    if not cands:
        return None
    ci = draw(st.sampled_from(cands))
    v = world.pool[ci].view
    base = world.base(v)
    non_enz = [nm for nm, a in v['contents'] if a > 0 and ref.subs[nm].kind != 'enzyme']
    solute = draw(st.sampled_from(sorted(non_enz)))
    liquids = [i for i in liquid_indices(world) if world.subs[i].name != solute]
    if not liquids:
        return None
    present_l = [i for i in liquids if base.get(world.subs[i].name, 0) > 0]
    solvent = draw(st.sampled_from(present_l if (present_l and draw(st.integers(0, 3))) else liquids))
    num = draw(st.sampled_from(['mol', 'mol', 'g', 'L']))
    den = draw(st.sampled_from(['L', 'L', 'g', 'mol']))
    if ref.size(base, den) == 0:       # a mixture without volume (solids under a density of inf): per mass instead
        den = 'g'
    cur = ref.conc(base, solute, num, den)
    if not (cur > 0 and math.isfinite(cur)):     # e.g. a solute without volume asked for per volume (density inf)
        return None
    mode = draw(st.sampled_from(profile.get('dilute_modes', ['lower'] * 6 + ['higher', 'equal'])))
    f = draw(st.floats(0.05, 0.95)) if mode == 'lower' else draw(st.floats(1.05, 1.5)) if mode == 'higher' else 1.0
    if mode == 'slightly':
        f = 1 - 10 ** draw(st.floats(-4, -2))          # a little below the current concentration
    c = draw(basic.conc_spelling(cur * f, num, den, cfg.wv))
    return {'op': 'dilute', 'obj': ci, 'solute': world.by_name[solute], 'conc': c.text, 'solvent': solvent,
            'name': world.fresh_name('dil') if (profile.get('dilute_new_name', True) and draw(st.integers(0, 2)) == 0)
            else None}


def gen_create_solution_from(world, draw, profile):
    ref, cfg = world.ref, world.cfg
    cands = _solution_containers(world)
    if not cands:
        return None
    ci = draw(st.sampled_from(cands))
    v = world.pool[ci].view
    base = world.base(v)
    non_enz = [nm for nm, a in v['contents'] if a > 0 and ref.subs[nm].kind != 'enzyme']
    solute = draw(st.sampled_from(sorted(non_enz)))
    liquids = [i for i in liquid_indices(world) if world.subs[i].name != solute]
    if not liquids:
        return None
    solvent = {'s': draw(st.sampled_from(liquids))}
    if profile.get('solution_from_container_solvent'):
        # a container as the diluent (direct API only): any other vessel holding a liquid, with or without the solute
        others = [i for i in world.indices('c') if i != ci and any(
            a > 0 and ref.subs[nm].kind == 'liquid' for nm, a in world.pool[i].view['contents'])]
        if others and draw(st.integers(0, 2)) == 0:
            solvent = {'c': draw(st.sampled_from(others))}
    num = draw(st.sampled_from(['mol', 'mol', 'g', 'L']))
    den = draw(st.sampled_from(['L', 'L', 'g', 'mol']))
    if ref.size(base, den) == 0:       # a mixture without volume (solids under a density of inf): per mass instead
        den = 'g'
    cur = ref.conc(base, solute, num, den)
    if not (cur > 0 and math.isfinite(cur)):     # e.g. a solute without volume asked for per volume (density inf)
        return None
    f = draw(st.floats(0.05, 0.95)) if draw(st.integers(0, 7)) else draw(st.floats(1.05, 1.5))
    if 'c' in solvent:
        # aim between the diluent's own concentration of the solute and the stock's
        low = ref.conc(world.base(world.pool[solvent['c']].view), solute, num, den)
        if math.isfinite(low) and 0 <= low <= 0.7 * cur:
            f = (low + (cur - low) * draw(st.floats(0.1, 0.9))) / cur
        elif math.isfinite(low) and low > 0.7 * cur:
            return None            # diluent about as concentrated as the stock: every target sits on a boundary
    c = draw(basic.conc_spelling(cur * f, num, den, cfg.wv))
    fam = draw(st.sampled_from(['L', 'L', 'g', 'mol']))
    # the stock supplies a fraction f of the solute: quantity up to size/f... keep below what the stock can give
    supply = ref.size(base, fam) / max(f, 1e-9)
    frac = draw(st.floats(0.02, 0.9)) if draw(st.integers(0, 7)) else draw(st.floats(1.05, 1.5))
    q = render_q(supply * frac * min(f, 1.0), fam, draw(st.sampled_from(PREFIX_POOL)), draw(st.integers(0, 2)), 6)
    return {'op': 'create_solution_from', 'src': ci, 'solute': world.by_name[solute], 'conc': c.text,
            'solvent': solvent, 'q': q.text, 'name': world.fresh_name('dfrom') if draw(st.booleans()) else None}
