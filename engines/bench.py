"""E1 Bench: histories over the direct Container / Plate API.

* JSON IR of operations (a history *is* its replay file)
* executor (IR -> real calls), views (pure-data snapshots of objects), World (pool of everything ever returned)
* reference simulation of transfers on views (refchem), used by several monitors
"""
import copy as _copy
import math

from refchem.model import Ref, RefCfg, Sub, fill_defaults, split_unit, prefix_f
from refchem import selectors as rsel
from gen import basic


# ------------------------------------------------------------------------------------------------ views

def view_container(c):
    return {'k': 'c', 'name': c.name, 'cap': c.max_volume, 'vol': c.volume,
            'contents': [(s.name, a) for s, a in c.contents.items()],
            'instr': getattr(c, 'instructions', None)}


def view_plate(p):
    return {'k': 'p', 'name': p.name, 'make': p.make, 'rows': list(p.row_names), 'cols': list(p.column_names),
            'cap': p.max_volume_per_well,
            'shape': tuple(p.wells.shape),
            'wells': [[view_container(w) for w in row] for row in p.wells]}


def view_slice(s):
    got = s.get()
    import numpy
    flat = list(numpy.asarray(got, dtype=object).flatten()) if hasattr(got, 'flatten') else [got]
    return {'k': 's', 'slices': repr(s.slices), 'plate': view_plate(s.plate),
            'sel_wells': [w.name for w in flat]}


def view(o, pp):
    if isinstance(o, pp.Container):
        return view_container(o)
    if isinstance(o, pp.Plate):
        return view_plate(o)
    if isinstance(o, pp.PlateSlicer):
        return view_slice(o)
    if isinstance(o, pp.Substance):
        return {'k': 'sub', 'name': o.name, 'type': o._type, 'mw': o.mol_weight, 'density': o.density,
                'sa': o.specific_activity, 'conc': o.concentration}
    if isinstance(o, (list, tuple)):
        return [view(x, pp) for x in o]
    if isinstance(o, dict):
        return {k: view(v, pp) for k, v in o.items()}
    return o


def contents_of(v):
    """stored contents of a container view as dict name -> stored amount"""
    d = {}
    for n, a in v['contents']:
        d[n] = d.get(n, 0.0) + a
    return d


# ------------------------------------------------------------------------------------------------ world

class Entry:
    __slots__ = ('obj', 'kind', 'view', 'origin', 'meta')

    def __init__(self, obj, kind, view_, origin, meta=None):
        self.obj, self.kind, self.view, self.origin, self.meta = obj, kind, view_, origin, meta or {}


class Outcome:
    __slots__ = ('results', 'exc', 'args', 'pre', 'post', 'new_entries', 'api')

    def __init__(self):
        self.results, self.exc, self.args, self.pre, self.post, self.new_entries, self.api = None, None, [], [], [], [], ''

    @property
    def ok(self):
        return self.exc is None


class World:
    def __init__(self, pp, subs_json=None, subs=None):
        self.pp = pp
        self.cfg = RefCfg()
        if subs is None:
            subs = [fill_defaults(Sub.from_json(d), self.cfg) for d in subs_json]
        self.subs = subs
        self.real = [basic.make_real(pp, s) for s in subs]
        self.by_name = {s.name: i for i, s in enumerate(subs)}
        self.ref = Ref(self.cfg, subs)
        self.pool = []
        self.history = []
        self.name_counter = 0

    def case(self):
        return {'subs': [s.to_json() for s in self.subs], 'ops': list(self.history)}

    def fresh_name(self, stem):
        self.name_counter += 1
        return f"{stem}{self.name_counter}"

    def add(self, obj, origin, meta=None):
        pp = self.pp
        kind = 'c' if isinstance(obj, pp.Container) else 'p' if isinstance(obj, pp.Plate) else \
            's' if isinstance(obj, pp.PlateSlicer) else '?'
        for e in self.pool:
            if e.obj is obj:
                return e        # the API returned an object that is already pooled (e.g. one plate twice): one vessel
        e = Entry(obj, kind, view(obj, pp), origin, meta)
        self.pool.append(e)
        return e

    live = None     # optional set of pool indices the generators may pick from (current versions of named objects)

    def indices(self, kind, pred=None):
        return [i for i, e in enumerate(self.pool) if e.kind == kind and (pred is None or pred(e))
                and (self.live is None or i in self.live)]

    # base contents helpers on views
    def base(self, cview):
        out = {}
        for n, a in cview['contents']:
            sp = self.ref.subs[n]
            out[n] = out.get(n, 0.0) + (a if sp.enzyme else a * self.cfg.mol_mult)
        return out

    def size(self, cview, fam):
        return self.ref.size(self.base(cview), fam)


def resolve_ref(world, r):
    """IR object reference -> (live object, plate entry or None, selector or None)."""
    e = world.pool[r['i']]
    if e.kind == 'p' and r.get('sel') is not None:
        sel = r['sel']
        if sel['t'] == 'plate':
            return e.obj, e, sel
        return rsel.select(e.obj, sel), e, sel
    if e.kind == 's':
        return e.obj, world.pool[e.meta['plate']], e.meta['sel']
    if e.kind == 'p':
        return e.obj, e, {'t': 'plate'}
    return e.obj, None, None


def plate_index_of(world, r):
    e = world.pool[r['i']]
    if e.kind == 's':
        return e.meta['plate']
    if e.kind == 'p':
        return r['i']
    return None


def execute(world, op):
    """Run one IR op against the real API. Everything pyplate raises is an outcome, not a harness failure."""
    pp = world.pp
    out = Outcome()
    k = op['op']
    R = world.real
    try:
        if k == 'container':
            contents = [(R[si], q) for si, q in op.get('contents') or []]
            args = [op['name']]
            if op.get('cap') is not None:
                args.append(op['cap'])
            out.api = 'Container'
            out.args = [('contents', contents)]
            out.pre = [view(contents, pp)]
            if op.get('contents') is None:
                fn = lambda: [pp.Container(*args)]
            elif op.get('cap') is None:
                fn = lambda: [pp.Container(op['name'], initial_contents=contents)]
            else:
                fn = lambda: [pp.Container(op['name'], op['cap'], contents)]
        elif k == 'plate':
            out.api = 'Plate'
            rows = op['rows']
            cols = op['cols']
            out.args = []
            fn = lambda: [pp.Plate(op['name'], op['cap'], rows=_copy.copy(rows), columns=_copy.copy(cols))]
        elif k == 'slice':
            out.api = 'Plate.__getitem__'
            plate = world.pool[op['plate']].obj
            out.args = [('plate', plate)]
            fn = lambda: [rsel.select(plate, op['sel'])]
        elif k == 'transfer':
            src, _, _ = resolve_ref(world, op['src'])
            dst, _, _ = resolve_ref(world, op['dst'])
            out.args = [('src', src), ('dst', dst)]
            if isinstance(dst, pp.Container):
                out.api = 'Container.transfer'
                fn = lambda: list(pp.Container.transfer(src, dst, op['q']))
            else:
                out.api = 'Plate.transfer'
                fn = lambda: list(pp.Plate.transfer(src, dst, op['q']))
        elif k == 'remove':
            obj, _, _ = resolve_ref(world, op['obj'])
            what = R[op['what']['s']] if 's' in op['what'] else op['what']['cls']
            out.args = [('obj', obj), ('what', what)]
            out.api = type(obj).__name__ + '.remove'
            fn = lambda: [obj.remove(what)]
        elif k == 'fill_to':
            obj, _, _ = resolve_ref(world, op['obj'])
            out.args = [('obj', obj), ('solvent', R[op['solvent']])]
            out.api = type(obj).__name__ + '.fill_to'
            fn = lambda: [obj.fill_to(R[op['solvent']], op['q'])]
        elif k == 'dilute':
            obj = world.pool[op['obj']].obj
            out.args = [('obj', obj), ('solute', R[op['solute']]), ('solvent', R[op['solvent']])]
            out.api = 'Container.dilute'
            fn = lambda: [obj.dilute(R[op['solute']], op['conc'], R[op['solvent']], op.get('name'))]
        elif k == 'create_solution':
            solutes = [R[i] for i in op['solutes']]
            sol_arg = solutes[0] if op.get('single') else solutes
            solvent = R[op['solvent']['s']] if 's' in op['solvent'] else world.pool[op['solvent']['c']].obj
            kw = {key: (list(v) if isinstance(v, list) else v) for key, v in op['kw'].items()}
            out.args = [('solute', sol_arg), ('solvent', solvent), ('kw', kw)]
            out.api = 'Container.create_solution'

            def fn():
                r = pp.Container.create_solution(sol_arg, solvent, op.get('name'), **kw)
                return list(r) if isinstance(r, tuple) else [r]
        elif k == 'create_solution_from':
            source = world.pool[op['src']].obj
            solvent = R[op['solvent']['s']] if 's' in op['solvent'] else world.pool[op['solvent']['c']].obj
            out.args = [('source', source), ('solute', R[op['solute']]), ('solvent', solvent)]
            out.api = 'Container.create_solution_from'
            fn = lambda: list(pp.Container.create_solution_from(source, R[op['solute']], op['conc'], solvent,
                                                                op['q'], op.get('name')))
        elif k == 'observe':
            out.api = 'observe'
            fn = lambda: []
        else:
            raise ValueError(f"unknown op {k}")
    except Exception as e:  # building the call (e.g. slicing) raised: still an outcome
        out.exc = e
        world.history.append(op)
        return out
    if not out.pre:
        out.pre = [view(a, pp) for _, a in out.args]
    try:
        out.results = fn()
    except Exception as e:  # noqa
        out.exc = e
    out.post = [view(a, pp) for _, a in out.args]
    idx = len(world.history)
    world.history.append(op)
    if out.results is not None:
        for r in out.results:
            meta = None
            if k == 'slice':
                meta = {'plate': op['plate'], 'sel': op['sel']}
            if isinstance(r, (pp.Container, pp.Plate, pp.PlateSlicer)):
                out.new_entries.append(world.add(r, idx, meta))
    return out


# ------------------------------------------------------------------------------------------------ transfer geometry

def well_views(world, r, pre=None):
    """For an IR reference: list of (coord or None, container view) addressed, the plate index, and the shape.
    coord None means a free-standing container."""
    e = world.pool[r['i']]
    if e.kind == 'c':
        return [(None, e.view)], None, None
    pi = plate_index_of(world, r)
    pe = world.pool[pi]
    sel = r.get('sel') if e.kind == 'p' else e.meta['sel']
    if sel is None:
        sel = {'t': 'plate'}
    coords, shape = rsel.resolve(sel, pe.view['rows'], pe.view['cols'])
    return [((rr, cc), pe.view['wells'][rr][cc]) for rr, cc in coords], pi, shape


def pairing(src_n, src_shape, dst_n, dst_shape, src_is_container, dst_is_container):
    """Documented pairing rule -> 'c2c' | '1toN' | 'Nto1' | 'NtoN' | 'invalid'."""
    if src_is_container and dst_is_container:
        return 'c2c'
    if src_is_container:
        return '1toN'
    if dst_is_container:
        return 'Nto1'
    if src_n == 1:
        return '1toN'
    if dst_n == 1:
        return 'Nto1'
    if src_n == dst_n and tuple(src_shape) == tuple(dst_shape):
        return 'NtoN'
    return 'invalid'


class RefTransfer:
    """Reference simulation of one transfer on views. Sequential, in row-major (list: given) order."""

    def __init__(self, world, op):
        self.world = world
        ref, cfg = world.ref, world.cfg
        v, p = op['q'].split(' ')
        self.prefix, self.fam = split_unit(p)
        self.q = float(v) * prefix_f(self.prefix)          # in family base units
        self.src, self.src_plate, self.src_shape = well_views(world, op['src'])
        self.dst, self.dst_plate, self.dst_shape = well_views(world, op['dst'])
        self.src_is_c = self.src_plate is None
        self.dst_is_c = self.dst_plate is None
        self.form = pairing(len(self.src), self.src_shape, len(self.dst), self.dst_shape, self.src_is_c, self.dst_is_c)
        self.same_plate = self.src_plate is not None and self.src_plate == self.dst_plate
        sc = {c for c, _ in self.src}
        dc = {c for c, _ in self.dst}
        self.overlap = self.same_plate and bool(sc & dc)
        self.self_transfer = self.src_is_c and self.dst_is_c and op['src']['i'] == op['dst']['i']
        # vessel states keyed by ('s'|'d', idx) or shared ('p', coord) when on the same plate
        self.margin = math.inf          # signed relative distance to the nearest feasibility boundary
        self.margin_kind = None
        self.eps = 0.0
        self.pairs = []
        self.expected = None
        if self.form == 'invalid' or self.overlap or self.self_transfer:
            return
        self._simulate()

    def _pairs(self):
        if self.form == 'c2c':
            return [(0, 0)]
        if self.form == '1toN':
            return [(0, j) for j in range(len(self.dst))]
        if self.form == 'Nto1':
            return [(i, 0) for i in range(len(self.src))]
        return [(i, i) for i in range(len(self.src))]

    def _simulate(self):
        w, ref, cfg = self.world, self.world.ref, self.world.cfg
        src = [dict(w.base(v)) for _, v in self.src]
        dst = [dict(w.base(v)) for _, v in self.dst]
        caps = [v['cap'] for _, v in self.dst]
        fam, q = self.fam, self.q
        req_grain = {'L': cfg.grain * cfg.vol_mult, 'mol': cfg.grain * cfg.mol_mult, 'g': cfg.grain, 'U': 0.0}[fam]
        moved_tol = [dict() for _ in src]
        self.pairs = self._pairs()
        self.tol_src = [dict() for _ in src]
        self.tol_dst = [dict() for _ in dst]
        self.zero_source = False
        draws = [0] * len(src)          # earlier aliquots taken from the same source within this call
        for i, j in self.pairs:
            a = src[i]
            size = ref.size(a, fam)
            names = list(a)
            gsum = sum(ref.grain_base(n) * abs(ref.subs[n].factor(fam)) for n in names)
            if fam == 'L':
                gsum += cfg.grain * cfg.vol_mult
            if size <= 0:
                # nothing measurable in this unit: only a zero request could be carried out
                self.zero_source = True
                # a request below the rounding grain of its unit is a zero request: don't care
                m = -math.inf if q > max(req_grain, cfg.grain) else 0.0
                self._note_margin(m, 'source-empty')
                phi = 0.0
                eps = 0.0
            else:
                eps = gsum / size + (req_grain / abs(q) if q else 0.0) + 1e-12
                phi = q / size
                m = (size - q) / max(size, abs(q))
                self._note_margin_band(m, 4 * eps, 'source-enough')
                if q < 0:
                    self._note_margin(-math.inf, 'negative')
            self.eps = max(self.eps, eps)
            vol_before = ref.volume_storage(a)
            for n in names:
                mv = phi * a[n]
                # every earlier aliquot left the source's stored composition off by up to one grain of each
                # amount (eps, relative to the measured size): the k-th aliquot of a 1-to-N transfer inherits k of them
                tol = 3 * ref.grain_base(n) + (6 + draws[i]) * eps * abs(mv)
                a[n] = a[n] - mv
                dst[j][n] = dst[j].get(n, 0.0) + mv
                self.tol_src[i][n] = self.tol_src[i].get(n, 0.0) + tol
                self.tol_dst[j][n] = self.tol_dst[j].get(n, 0.0) + tol
            draws[i] += 1
            # capacity of the destination after this aliquot
            newvol = ref.volume_storage(dst[j])
            cap = caps[j]
            if not math.isinf(cap):
                vg = sum(ref.grain_base(n) * abs(ref.subs[n].factor('L')) for n in dst[j]) / cfg.vol_mult + cfg.grain
                band = (vg + 8 * eps * abs(phi) * vol_before + 1e-9 * cap) / cap      # 8 eps of the volume moved
                self._note_margin_band((cap - newvol) / cap, band, 'capacity')
        self.expected = (src, dst)

    def _note_margin(self, m, kind):
        if m < self.margin:
            self.margin, self.margin_kind = m, kind

    def _note_margin_band(self, m, band, kind):
        """Margins inside the don't-care band count as 0."""
        if abs(m) <= band:
            m = 0.0
        self._note_margin(m, kind)

    def verdict(self):
        """'accept' | 'refuse' | 'dontcare'"""
        if self.form == 'invalid':
            return 'refuse'
        if self.overlap or self.self_transfer:
            return 'dontcare'
        if self.margin > 0:
            return 'accept'
        if self.margin < 0:
            return 'refuse'
        return 'dontcare'
