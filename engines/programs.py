"""E2 Programs: recipe programs in a JSON IR with three readings — Recipe (+bake), Eager (direct calls folded over
an environment), and a ledger of snapshots of the eager environment at every step boundary.

Programs are generated state-aware by driving the Bench generators over the *current* versions of the named
objects (the eager fold runs in lockstep during generation), then translated from pool indices to names.
"""
import copy
import math

from hypothesis import strategies as st

from engines import bench, benchgen
from gen import basic
from refchem import selectors as rsel
from refchem.model import RefCfg

STEP_KINDS = {'transfer': 8, 'create_container': 2, 'solution': 2, 'solution_from': 1, 'remove': 2, 'dilute': 2,
              'fill_to': 2}
BENCH_GEN = {'transfer': benchgen.gen_transfer, 'create_container': benchgen.gen_container,
             'solution': benchgen.gen_create_solution, 'solution_from': benchgen.gen_create_solution_from,
             'remove': benchgen.gen_remove, 'dilute': benchgen.gen_dilute, 'fill_to': benchgen.gen_fill_to}


# ------------------------------------------------------------------------------------------------ generation

class _Gen:
    """lockstep state: bench world + key -> current pool index"""

    def __init__(self, pp, subs):
        self.world = bench.World(pp, subs=subs)
        self.world.live = set()
        self.cur = {}          # key name -> pool index of the current version
        self.key_of = {}       # pool index -> key name

    def bind(self, key, entry):
        idx = self.world.pool.index(entry)
        old = self.cur.get(key)
        if old is not None:
            self.world.live.discard(old)
        self.cur[key] = idx
        self.key_of[idx] = key
        self.world.live.add(idx)

    def key(self, i):
        return self.key_of[i]

    def ref(self, r):
        """bench reference -> program reference"""
        e = self.world.pool[r['i']]
        out = {'o': self.key(r['i'])}
        if e.kind == 'p':
            out['sel'] = r.get('sel') or {'t': 'plate'}
        return out


def translate(g, op):
    """bench op (pool indices) -> program step (names); None if it cannot be a recipe step"""
    k = op['op']
    if k == 'container':
        return {'op': 'create_container', 'name': op['name'], 'cap': op['cap'], 'contents': op['contents']}
    if k == 'transfer':
        return {'op': 'transfer', 'src': g.ref(op['src']), 'dst': g.ref(op['dst']), 'q': op['q']}
    if k == 'remove':
        return {'op': 'remove', 'obj': g.ref(op['obj']), 'what': op['what']}
    if k == 'fill_to':
        return {'op': 'fill_to', 'obj': g.ref(op['obj']), 'solvent': op['solvent'], 'q': op['q']}
    if k == 'dilute':
        return {'op': 'dilute', 'obj': g.key(op['obj']), 'solute': op['solute'], 'conc': op['conc'],
                'solvent': op['solvent'], 'new_name': op.get('name')}
    if k == 'create_solution':
        solvent = {'s': op['solvent']['s']} if 's' in op['solvent'] else {'o': g.key(op['solvent']['c'])}
        return {'op': 'solution', 'name': op['name'], 'solutes': op['solutes'], 'single': op.get('single', False),
                'solvent': solvent, 'kw': op['kw']}
    if k == 'create_solution_from':
        if 's' not in op['solvent']:
            return None
        return {'op': 'solution_from', 'name': op['name'], 'src': g.key(op['src']), 'solute': op['solute'],
                'conc': op['conc'], 'solvent': {'s': op['solvent']['s']}, 'q': op['q']}
    return None


def rebind(g, op, out):
    """after a successful bench op: the results become the current versions of their keys"""
    k = op['op']
    ne = out.new_entries
    if k == 'container':
        g.bind(op['name'], ne[0])
    elif k == 'transfer':
        ks, kd = g.key(op['src']['i']), g.key(op['dst']['i'])
        g.bind(ks, ne[0])
        g.bind(kd, ne[1] if len(ne) > 1 else ne[0])
    elif k in ('remove', 'fill_to'):
        g.bind(g.key(op['obj']['i']), ne[0])
    elif k == 'dilute':
        g.bind(g.key(op['obj']), ne[0])
    elif k == 'create_solution':
        if 'c' in op['solvent']:
            g.bind(g.key(op['solvent']['c']), ne[0])
            g.bind(op['name'], ne[1])
        else:
            g.bind(op['name'], ne[0])
    elif k == 'create_solution_from':
        g.bind(g.key(op['src']), ne[0])
        g.bind(op['name'], ne[-1])


def gen_program(draw, pp, cfg, profile=None):
    profile = dict(profile or {})
    profile.setdefault('max_dim', 3)
    profile.setdefault('q_modes', ['frac'] * 9 + ['whole'])
    profile.setdefault('fill_modes', ['fit'] * 9 + ['over'])
    profile.setdefault('dilute_modes', ['lower'] * 9 + ['higher'])
    profile.setdefault('solvent_containers', True)
    subs = draw(basic.substance_pool(cfg, max_extra=profile.get('max_extra_subs', 1)))
    g = _Gen(pp, subs)
    world = g.world
    world.sub_one_in = profile.get('sub_one_in', 10)
    world.dup_wells = profile.get('dup_wells', False)      # lists of wells may name a well more than once
    objects = []
    for _ in range(draw(st.integers(1, 3))):
        op = benchgen.gen_container(world, draw, profile)
        if not op['contents']:
            continue
        out = bench.execute(world, op)
        if out.ok:
            g.bind(op['name'], out.new_entries[0])
            objects.append({'kind': 'container', 'name': op['name'], 'cap': op['cap'], 'contents': op['contents']})
    for _ in range(draw(st.integers(*profile.get('n_plates', (0, 2)))) if profile.get('plates', True) else 0):
        op = benchgen.gen_plate(world, draw, profile)
        out = bench.execute(world, op)
        if out.ok:
            g.bind(op['name'], out.new_entries[0])
            objects.append({'kind': 'plate', 'name': op['name'], 'cap': op['cap'], 'rows': op['rows'], 'cols': op['cols']})
    weights = dict(STEP_KINDS)
    weights.update(profile.get('weights', {}))
    kinds = [k for k, w in weights.items() for _ in range(w)]
    n_steps = draw(st.integers(1, profile.get('max_steps', 12)))
    steps = []
    # most plates are loaded by a first recipe step (container -> whole plate or a region), so that later steps and
    # the tracking queries see plates whose wells hold something
    for o in list(objects):
        if o['kind'] != 'plate' or draw(st.integers(0, 3)) == 0 or profile.get('level_prefill') == 'always':
            continue
        srcs = [i for i in world.indices('c') if benchgen._nonempty(world, world.pool[i].view)]
        if not srcs:
            break
        pi = g.cur[o['name']]
        dst = {'i': pi, 'sel': {'t': 'all'}} if draw(st.booleans()) else benchgen.region_ref(world, draw, pi)
        op = {'op': 'transfer', 'src': {'i': draw(st.sampled_from(srcs))}, 'dst': dst, 'q': None}
        op['q'] = benchgen.gen_transfer_quantity(world, draw, dict(profile, q_modes=['frac']), op)
        step = translate(g, op)
        out = bench.execute(world, op)
        if out.ok:
            rebind(g, op, out)
            steps.append(step)
    # fill patterns: every well of a plate is put on one of two or three levels (one transfer per level into the list
    # of its wells), so that a later fill_to of the plate adds different amounts to irregular groups of wells
    for o in list(objects):
        if o['kind'] != 'plate' or not profile.get('level_prefill') or \
                (profile['level_prefill'] != 'always' and draw(st.integers(0, 2)) == 0):
            continue
        pi = g.cur[o['name']]
        pv = world.pool[pi].view
        nlev = draw(st.integers(2, 3))
        level = [[draw(st.integers(0, nlev - 1)) for _ in pv['cols']] for _ in pv['rows']]
        for lv in range(1, nlev):
            srcs = [i for i in world.indices('c') if benchgen._nonempty(world, world.pool[i].view)]
            items = [{'t': 'wstr', 'r': pv['rows'][r], 'c': pv['cols'][c]}
                     for r in range(len(pv['rows'])) for c in range(len(pv['cols'])) if level[r][c] == lv]
            if not srcs or not items:
                continue
            op = {'op': 'transfer', 'src': {'i': draw(st.sampled_from(srcs))}, 'dst': {'i': g.cur[o['name']], 'sel': {'t': 'list', 'items': items}},
                  'q': None}
            op['q'] = benchgen.gen_transfer_quantity(world, draw, dict(profile, q_modes=['frac']), op)
            step = translate(g, op)
            out = bench.execute(world, op)
            if out.ok:
                rebind(g, op, out)
                steps.append(step)
    failing = None
    stage_open = None
    stage_no = 0
    want_stages = profile.get('stages', True)
    for _ in range(n_steps):
        if want_stages and draw(st.integers(0, 4)) == 0:
            if stage_open is None:
                stage_no += 1
                stage_open = f"stage{stage_no}"
                steps.append({'op': 'start_stage', 'name': stage_open})
            else:
                steps.append({'op': 'end_stage', 'name': stage_open})
                stage_open = None
        kind = draw(st.sampled_from(kinds))
        op = BENCH_GEN[kind](world, draw, profile)
        if op is None:
            continue
        if op['op'] in ('create_solution', 'create_solution_from') and not op.get('name'):
            op['name'] = world.fresh_name('mix')
        if op['op'] == 'transfer':
            try:
                rt = bench.RefTransfer(world, op)
                if rt.overlap or rt.self_transfer:
                    continue
            except rsel.Invalid:
                continue
        if op['op'] == 'create_solution' and 'c' in op['solvent'] and profile.get('solution_over') and draw(st.booleans()):
            # drain part of the solvent container just before it is drawn from: the request (made out for the state
            # before the drain) may now exceed what is left, while the container as it was declared would still do
            sc = op['solvent']['c']
            others = [i for i in world.indices('c') if i != sc]
            if others:
                skey = g.key(sc)
                frac = draw(st.floats(0.4, 0.8))
                drain = {'op': 'transfer', 'src': {'i': sc}, 'dst': {'i': draw(st.sampled_from(others))},
                         'q': f"{world.pool[sc].view['vol'] * cfg.vol_mult * frac * 1e6:.6g} uL"}
                dstep = translate(g, drain)
                dout = bench.execute(world, drain)
                if dout.ok:
                    rebind(g, drain, dout)
                    steps.append(dstep)
                    op['solvent']['c'] = g.cur[skey]
        step = translate(g, op)
        if step is None:
            continue
        out = bench.execute(world, op)
        if out.ok:
            rebind(g, op, out)
            steps.append(step)
        elif profile.get('keep_failing', True) and draw(st.integers(0, 2)) == 0:
            step['expect_fail'] = type(out.exc).__name__
            steps.append(step)
            failing = len(steps) - 1
            break
    if stage_open is not None and draw(st.booleans()) and failing is None:
        steps.append({'op': 'end_stage', 'name': stage_open})
    if profile.get('chain') and failing is None and draw(st.integers(0, 2)) == 0:
        # chained recipes: bake what there is so far, ask it some tracking questions, then declare its results to a
        # second recipe that carries on (state carried from one recipe to the next); only where no stage is open
        spots = []
        open_ = False
        nreal = 0
        for i, s_ in enumerate(steps):
            if s_['op'] == 'start_stage':
                open_ = True
            elif s_['op'] == 'end_stage':
                open_ = False
            else:
                nreal += 1
            if not open_ and nreal >= 1 and any(x['op'] not in ('start_stage', 'end_stage') for x in steps[i + 1:]):
                spots.append(i + 1)
        if spots:
            steps.insert(draw(st.sampled_from(spots)), {'op': 'rebake'})
    # only objects that some step uses are declared (bake refuses unused declarations; that rule is C16's)
    used = used_keys(steps)
    objects = [o for o in objects if o['name'] in used]
    return {'program': True, 'subs': [s.to_json() for s in subs], 'objects': objects, 'steps': steps}


def used_keys(steps):
    used = set()
    for s in steps:
        for key in ('src', 'dst', 'obj'):
            r = s.get(key)
            if isinstance(r, dict):
                used.add(r['o'])
            elif isinstance(r, str):
                used.add(r)
        if s['op'] == 'solution' and 'o' in s['solvent']:
            used.add(s['solvent']['o'])
    return used


def real_steps(prog):
    return [s for s in prog['steps'] if s['op'] not in ('start_stage', 'end_stage', 'rebake')]


def split_chain(prog):
    """(first segment, second segment) of a chained program, or (prog, None).  The second segment declares the
    results of the first (plus original objects the first never used)."""
    idx = next((i for i, s in enumerate(prog['steps']) if s['op'] == 'rebake'), None)
    if idx is None:
        return prog, None
    s1, s2 = prog['steps'][:idx], prog['steps'][idx + 1:]
    u1 = used_keys(s1)
    seg1 = dict(prog, objects=[o for o in prog['objects'] if o['name'] in u1], steps=s1)
    seg2 = dict(prog, objects=[o for o in prog['objects'] if o['name'] not in u1], steps=s2, carried=sorted(used_keys(s2)))
    return seg1, seg2


def stages_of(prog):
    """{stage name: (first real-step index, end real-step index exclusive)} incl. 'all'; open stage closed at end"""
    out = {}
    n = 0
    open_ = None
    for s in prog['steps']:
        if s['op'] == 'start_stage':
            open_ = (s['name'], n)
        elif s['op'] == 'end_stage':
            out[open_[0]] = (open_[1], n)
            open_ = None
        elif s['op'] == 'rebake':
            continue
        else:
            n += 1
    if open_ is not None:
        out[open_[0]] = (open_[1], n)
    out['all'] = (0, n)
    return out


# ------------------------------------------------------------------------------------------------ interpreters

def make_declared(pp, R, o):
    if o['kind'] == 'container':
        contents = [(R[si], q) for si, q in o['contents'] or []]
        if o.get('cap') is None:
            return pp.Container(o['name'], initial_contents=contents)
        return pp.Container(o['name'], o['cap'], contents)
    return pp.Plate(o['name'], o['cap'], rows=copy.copy(o['rows']), columns=copy.copy(o['cols']))


def what_of(R, w):
    return R[w['s']] if 's' in w else w['cls']


class EagerResult:
    def __init__(self):
        self.env = {}
        self.snapshots = []      # views {key: view} at every real-step boundary (index 0 = initial state)
        self.exc = None
        self.failed_at = None    # real-step index
        self.created_at = {}     # key -> real-step index at which it comes into existence (declared: -1)


def run_eager(pp, R, prog):
    res = EagerResult()
    env = res.env
    for o in prog['objects']:
        env[o['name']] = make_declared(pp, R, o)
        res.created_at[o['name']] = -1

    def snap():
        res.snapshots.append({k: bench.view(v, pp) for k, v in env.items()})

    def operand(r):
        obj = env[r['o']]
        sel = r.get('sel')
        if sel is None or sel['t'] == 'plate':
            return obj
        return rsel.select(obj, sel)
    snap()
    for idx, s in enumerate(real_steps(prog)):
        k = s['op']
        try:
            if k == 'create_container':
                contents = [(R[si], q) for si, q in s['contents'] or []]
                env[s['name']] = pp.Container(s['name'], s['cap'] or 'inf L', contents or None)
                res.created_at[s['name']] = idx
            elif k == 'transfer':
                src, dst = operand(s['src']), operand(s['dst'])
                if isinstance(dst, pp.Container):
                    a, b = pp.Container.transfer(src, dst, s['q'])
                else:
                    a, b = pp.Plate.transfer(src, dst, s['q'])
                env[s['src']['o']] = a
                env[s['dst']['o']] = b
            elif k == 'remove':
                env[s['obj']['o']] = operand(s['obj']).remove(what_of(R, s['what']))
            elif k == 'fill_to':
                env[s['obj']['o']] = operand(s['obj']).fill_to(R[s['solvent']], s['q'])
            elif k == 'dilute':
                env[s['obj']] = env[s['obj']].dilute(R[s['solute']], s['conc'], R[s['solvent']], s.get('new_name'))
            elif k == 'solution':
                solutes = [R[i] for i in s['solutes']]
                arg = solutes[0] if s.get('single') and len(solutes) == 1 else solutes
                kw = {key: (list(v) if isinstance(v, list) else v) for key, v in s['kw'].items()}
                if 's' in s['solvent']:
                    env[s['name']] = pp.Container.create_solution(arg, R[s['solvent']['s']], s['name'], **kw)
                else:
                    left, new = pp.Container.create_solution(arg, env[s['solvent']['o']], s['name'], **kw)
                    env[s['solvent']['o']] = left
                    env[s['name']] = new
                res.created_at[s['name']] = idx
            elif k == 'solution_from':
                left, new = pp.Container.create_solution_from(env[s['src']], R[s['solute']], s['conc'],
                                                              R[s['solvent']['s']], s['q'], s['name'])
                env[s['src']] = left
                env[s['name']] = new
                res.created_at[s['name']] = idx
            else:
                raise ValueError(k)
        except Exception as e:  # noqa
            res.exc = e
            res.failed_at = idx
            return res
        snap()
    return res


class RecipeResult:
    def __init__(self):
        self.recipe = None
        self.decl = {}           # key -> object handed to / returned by the recipe
        self.slices = {}         # (key, selector repr) -> slice object (reused across steps)
        self.add_exc = None      # exception raised by a step-adding call (index, exc)
        self.bake_exc = None
        self.results = None
        self.fingerprints = []   # (label, object, view at hand-over time)


def run_recipe(pp, R, prog, bake=True, uses_as_list=False, carried=None):
    """carried: {key: object} results of an earlier recipe that this one declares (chained recipes)"""
    rr = RecipeResult()
    recipe = rr.recipe = pp.Recipe()
    decl = rr.decl
    for key, obj in (carried or {}).items():
        decl[key] = obj
        rr.fingerprints.append((f"declared:{key}", obj, bench.view(obj, pp)))
    for o in prog['objects']:
        decl[o['name']] = make_declared(pp, R, o)
        rr.fingerprints.append((f"declared:{o['name']}", decl[o['name']], bench.view(decl[o['name']], pp)))
    if decl:
        if uses_as_list == 'iter':
            recipe.uses(iter(list(decl.values())))         # any iterable, also a one-shot one
        elif uses_as_list:
            recipe.uses(list(decl.values()))
        else:
            recipe.uses(*decl.values())

    def operand(r):
        obj = decl[r['o']]
        sel = r.get('sel')
        if sel is None or sel['t'] == 'plate':
            return obj
        key = (r['o'], repr(sel))
        if key not in rr.slices:
            rr.slices[key] = rsel.select(obj, sel)
            rr.fingerprints.append((f"slice:{r['o']}", rr.slices[key], bench.view(rr.slices[key], pp)))
        return rr.slices[key]
    ridx = -1
    for s in prog['steps']:
        k = s['op']
        if k == 'rebake':
            continue
        if k not in ('start_stage', 'end_stage'):
            ridx += 1
        try:
            if k == 'start_stage':
                recipe.start_stage(s['name'])
            elif k == 'end_stage':
                recipe.end_stage(s['name'])
            elif k == 'create_container':
                contents = [(R[si], q) for si, q in s['contents'] or []]
                decl[s['name']] = recipe.create_container(s['name'], s['cap'] or 'inf L', contents or None)
            elif k == 'transfer':
                recipe.transfer(operand(s['src']), operand(s['dst']), s['q'])
            elif k == 'remove':
                recipe.remove(operand(s['obj']), what_of(R, s['what']))
            elif k == 'fill_to':
                recipe.fill_to(operand(s['obj']), R[s['solvent']], s['q'])
            elif k == 'dilute':
                recipe.dilute(decl[s['obj']], R[s['solute']], s['conc'], R[s['solvent']], s.get('new_name'))
            elif k == 'solution':
                solutes = [R[i] for i in s['solutes']]
                arg = solutes[0] if s.get('single') and len(solutes) == 1 else solutes
                kw = {key: (list(v) if isinstance(v, list) else v) for key, v in s['kw'].items()}
                solvent = R[s['solvent']['s']] if 's' in s['solvent'] else decl[s['solvent']['o']]
                decl[s['name']] = recipe.create_solution(arg, solvent, s['name'], **kw)
            elif k == 'solution_from':
                decl[s['name']] = recipe.create_solution_from(decl[s['src']], R[s['solute']], s['conc'],
                                                              R[s['solvent']['s']], s['q'], s['name'])
            if k in ('create_container', 'solution', 'solution_from'):
                rr.fingerprints.append((f"created:{s['name']}", decl[s['name']], bench.view(decl[s['name']], pp)))
        except Exception as e:  # noqa
            rr.add_exc = (ridx, e)
            return rr
    if bake:
        try:
            rr.results = recipe.bake()
        except Exception as e:  # noqa
            rr.bake_exc = e
    return rr


# ------------------------------------------------------------------------------------------------ comparison helpers

def set_rel_tol(world, eager, prog):
    """Relative tolerance for comparing a bake with the eager fold of one program.  The two may differ by a storage
    grain after any step (bake repeats a fill_to, sums in another order); a later transfer by volume divides by the
    stored volume of its source, so one grain of volume (1e-10 U of an enzyme is 1e-7 uL) becomes a relative
    difference of grain / volume in every amount moved.  rel = 4 x steps x (volume of one grain of everything) /
    (smallest volume handled), at least 1e-11."""
    ref, cfg = world.ref, world.cfg
    gvol = cfg.grain * cfg.vol_mult + sum(ref.grain_base(n) * abs(sp.factor('L')) for n, sp in ref.subs.items())
    vols = []
    big_amount = big_vol = 0.0
    for snap in eager.snapshots:
        for v in snap.values():
            for _, w in wells_of(v):
                x = ref.size(world.base(w), 'L')
                if x > 0:
                    vols.append(x)
                big_vol = max(big_vol, abs(w['vol']))
                big_amount = max([big_amount] + [abs(a) for _, a in w['contents']])
    nsteps = len(real_steps(prog))
    # beyond ~1e6 storage units a float cannot hold a grain (ulp of 1.6e7 is 3.7e-9): what is left after nearly all of
    # such an amount has been moved on carries that ulp, whatever its own size
    world.abs_tol = 8 * 2.3e-16 * big_amount
    world.abs_vol = 8 * 2.3e-16 * big_vol
    world.rel_tol = max(1e-11, min(1e-6, 4 * nsteps * gvol / max(min(vols) if vols else 1e-6, 1e-12)))
    return world.rel_tol


def same_container(world, a_view, b_view, grains=4):
    """views equal up to a few storage grains in amounts/volume; name and capacity exactly"""
    if a_view['name'] != b_view['name'] or a_view['cap'] != b_view['cap']:
        return False
    g = grains * world.cfg.grain + getattr(world, 'abs_tol', 0.0)
    rel = getattr(world, 'rel_tol', 1e-11)
    ca, cb = bench.contents_of(a_view), bench.contents_of(b_view)
    ref = world.ref
    gv = sum(grains * ref.grain_base(n) * abs(ref.subs[n].factor('L')) for n in set(ca) | set(cb)) / world.cfg.vol_mult + g
    if abs(a_view['vol'] - b_view['vol']) > gv + getattr(world, 'abs_vol', 0.0) + rel * abs(a_view['vol']):
        return False
    for n in set(ca) | set(cb):
        x, y = ca.get(n, 0.0), cb.get(n, 0.0)
        if abs(x - y) > g + rel * max(abs(x), abs(y)):
            return False
    return True


def same_object(world, a, b):
    if a.get('k') != b.get('k'):
        return False
    if a['k'] == 'c':
        return same_container(world, a, b)
    for key in ('name', 'make', 'rows', 'cols', 'cap', 'shape'):
        if a[key] != b[key]:
            return False
    return all(same_container(world, x, y) for ra, rb in zip(a['wells'], b['wells']) for x, y in zip(ra, rb))


def wells_of(view):
    """list of (coord|None, container view)"""
    if view['k'] == 'c':
        return [(None, view)]
    return [((r, c), w) for r, row in enumerate(view['wells']) for c, w in enumerate(row)]


def removed_amounts(world, prog, eager, step_idx):
    """per-substance base amounts discarded by remove step `step_idx` (addressed wells only), from the ledger"""
    s = real_steps(prog)[step_idx]
    before = eager.snapshots[step_idx][s['obj']['o']]
    after = eager.snapshots[step_idx + 1][s['obj']['o']]
    out = {}
    for (c, wb), (_, wa) in zip(wells_of(before), wells_of(after)):
        bb, ba = world.base(wb), world.base(wa)
        for n in bb:
            d = bb[n] - ba.get(n, 0.0)
            if d:
                out[n] = out.get(n, 0.0) + d
    return out


def strip_text(v):
    return {k: x for k, x in v.items() if k != 'instr'}


def step_variant(s):
    k = s['op']
    if k == 'fill_to' and s['obj'].get('sel', {}).get('t') not in (None, 'plate', 'all'):
        return 'fill_to-slice'
    if k == 'solution' and 'o' in s['solvent']:
        return 'solution-container-solvent'
    return k


def first_divergence(world, pp, rr, eager, prog):
    """kind of the first step whose recorded after-state (RecipeStep.to[1] / frm[1]) differs from the eager ledger"""
    steps = real_steps(prog)
    for i, (s, rs) in enumerate(zip(steps, rr.recipe.steps)):
        if i + 1 >= len(eager.snapshots):
            break
        k = s['op']
        pairs = []
        if k == 'transfer':
            pairs = [(rs.frm, s['src']['o']), (rs.to, s['dst']['o'])]
        elif k in ('remove', 'fill_to'):
            pairs = [(rs.to, s['obj']['o'])]
        elif k == 'dilute':
            pairs = [(rs.to, s['obj'])]
        elif k in ('solution', 'create_container'):
            pairs = [(rs.to, s['name'])]
        elif k == 'solution_from':
            pairs = [(rs.frm, s['src']), (rs.to, s['name'])]
        if step_variant(s) == 'fill_to-slice' and len(rs.to) > 1 and rs.to[0] is not None and rs.to[-1] is not None:
            # the open finding (bake fills the whole plate before the slice) is recognised by what it does, however
            # little solvent it is: a well the step does not address differs between the recorded before and after
            try:
                vb, va = bench.view(rs.to[0], pp), bench.view(rs.to[-1], pp)
                coords, _ = rsel.resolve(s['obj']['sel'], vb['rows'], vb['cols'])
                addressed = set(coords)
                if vb['k'] == 'p' and va['k'] == 'p' and any(
                        (r, c) not in addressed and strip_text(va['wells'][r][c]) != strip_text(vb['wells'][r][c])
                        for r in range(len(vb['wells'])) for c in range(len(vb['wells'][r]))):
                    return 'fill_to-slice'
            except rsel.Invalid:
                pass
        for lst, key in pairs:
            if len(lst) > 1 and lst[-1] is not None and key in eager.snapshots[i + 1]:
                if not same_object(world, bench.view(lst[-1], pp), eager.snapshots[i + 1][key]):
                    return step_variant(s)
        if k == 'solution' and 'o' in s['solvent'] and s['solvent']['o'] in rr.recipe.results:
            pass
    return 'unrecorded'



# ------------------------------------------------------------------------------------------------ baked pair for tracking checks

class _EagerView:
    """the part of an eager result that belongs to the second recipe of a chain (ledger indices shifted)"""

    def __init__(self, eager, offset):
        self.env = eager.env
        self.snapshots = eager.snapshots[offset:]
        self.exc = eager.exc
        self.failed_at = eager.failed_at
        self.created_at = {k: v - offset for k, v in eager.created_at.items()}


def ask_everything(pp, world, rr):
    """a battery of tracking questions whose answers are thrown away (fills whatever memo the library may keep)"""
    for key, obj in sorted(rr.results.items()):
        for real in world.real:
            for dest in ([obj], 'plates'):
                try:
                    rr.recipe.get_substance_used(real, 'all', 'U' if real.is_enzyme() else 'umol', dest)
                except Exception:  # noqa
                    pass
        for unit in ('uL', 'mg'):
            try:
                rr.recipe.get_container_flows(obj, 'all', unit)
                rr.recipe.get_amount_remaining(obj, 'all', unit)
            except Exception:  # noqa
                pass


def baked_pair(col, pp, prog, pre_hook=None):
    """Run eager fold and recipe(s); return (world, eager, rr, prog') only if both succeed and agree at every step
    (else count and skip: a disagreement is C08's business, the tracking checks judge only the tracking arithmetic).
    For a chained program the first recipe is baked and questioned, its results are declared to a second recipe, and
    (eager', rr', prog') describe that second recipe (ledger indices relative to its first step)."""
    world = bench.World(pp, subs_json=prog['subs'])
    R = world.real
    eager = run_eager(pp, R, prog)
    if eager.exc is not None:
        col.exclude('program does not run eagerly')
        return None
    # (the tracking checks keep the strict comparison, 1e-11 relative: a program whose bake drifts further from the
    # eager fold is excluded and counted, so the ledgers can stay tight; the size-relative comparison is C08's)
    seg1, seg2 = split_chain(prog)
    rr = run_recipe(pp, R, seg1)
    offset = 0
    view_prog = prog
    if seg2 is not None and rr.results is not None:
        col.label('chained-recipes')
        offset = len(real_steps(seg1))
        e1 = _EagerView(eager, 0)
        e1.snapshots = eager.snapshots[:offset + 1]
        if first_divergence(world, pp, rr, e1, seg1) != 'unrecorded':
            col.exclude('an intermediate state of the bake differs from the eager fold (C08)')
            return None
        ask_everything(pp, world, rr)
        carried = {k: rr.results[k] for k in seg2['carried'] if k in rr.results}
        rr = run_recipe(pp, R, seg2, carried=carried)
        eager = _EagerView(eager, offset)
        view_prog = seg2
    if rr.add_exc is not None or rr.bake_exc is not None:
        col.exclude('bake refuses although eager accepts (C08)')
        return None
    if pre_hook is not None:
        pre_hook(world, eager, rr, view_prog)
    for key, obj in rr.results.items():
        if key not in eager.env or not same_object(world, bench.view(obj, pp), bench.view(eager.env[key], pp)):
            col.exclude('bake result differs from eager fold (C08)')
            return None
    if first_divergence(world, pp, rr, eager, view_prog) != 'unrecorded':
        col.exclude('an intermediate state of the bake differs from the eager fold (C08)')
        return None
    return world, eager, rr, view_prog


def amount_in(world, view, name):
    """base amount of substance `name` in a container/plate view"""
    return sum(world.base(w).get(name, 0.0) for _, w in wells_of(view))


def natural_units(draw, sub, magnitude_base):
    """a unit (family legal for the substance kind, any prefix) biased towards prefixes that give values >= 0.1"""
    from refchem.model import PREFIX_LIST, prefix_f
    fams = ['U', 'g', 'L'] if sub.enzyme else ['mol', 'g', 'L']
    fam = draw(st.sampled_from(fams))
    if fam == 'U':
        return 'U'
    val = abs(magnitude_base) * abs(sub.factor(fam))
    good = [p for p in PREFIX_LIST if val > 0 and 0.1 <= val / prefix_f(p) < 1e6]
    p = draw(st.sampled_from(good if (good and draw(st.integers(0, 4))) else PREFIX_LIST))
    return p + fam


# ------------------------------------------------------------------------------------------------ recipe halves of E1 properties

def _prog_case(prog, extra=None):
    c = {'program': True, 'subs': prog['subs'], 'objects': prog['objects'], 'steps': prog['steps']}
    if extra:
        c.update(extra)
    return c


def _run_programs(col, pp, check, n_quick, n_thorough, prof, tag):
    from harness import core
    from hypothesis import given
    cfg = RefCfg()

    def t():
        @given(st.data())
        def test(data):
            core.env.clear_caches()
            prog = gen_program(data.draw, pp, cfg, prof)
            check(col, pp, cfg, prog)
        return test
    core.run_property(col, t, core.budget(n_quick, n_thorough, col.tier), tag=tag)


# ---- C01: transfer steps of a baked recipe conserve every substance and touch only the wells they address ----------

def check_c01(col, pp, cfg, prog):
    col.case()
    col.label('recipe')
    steps = real_steps(prog)
    if any(s['op'] != 'transfer' for s in steps) or not steps:
        col.exclude('recipe with steps other than transfers')
        return
    world = bench.World(pp, subs_json=prog['subs'])
    ref = world.ref
    rr = run_recipe(pp, world.real, prog)
    if rr.results is None:
        exc = rr.add_exc[1] if rr.add_exc else rr.bake_exc
        col.label(f"recipe-refused:{type(exc).__name__}")
        return
    col.label('recipe:baked')
    init = {o['name']: bench.view(make_declared(pp, world.real, o), pp) for o in prog['objects']}
    final = {k: bench.view(v, pp) for k, v in rr.results.items()}
    if set(init) != set(final):
        col.report('recipe/transfer-only/result-names-differ', {'declared': sorted(init), 'results': sorted(final)}, _prog_case(prog))
        return

    def totals(views):
        t, biggest = {}, {}
        for v in views.values():
            for _, w in wells_of(v):
                for n, a in w['contents']:
                    t[n] = t.get(n, 0.0) + a
                    biggest[n] = max(biggest.get(n, 0.0), abs(a))
        return t, biggest
    before, big = totals(init)
    after, _ = totals(final)
    # wells addressed by some step (reference resolver); the pairs one step makes bound the number of rounded stores
    addressed, pairs = set(), 0
    sub_sel = False
    for s in steps:
        n_side = []
        for side in (s['src'], s['dst']):
            v = init[side['o']]
            if v['k'] == 'c':
                addressed.add((side['o'], None))
                n_side.append(1)
            else:
                sel = side.get('sel') or {'t': 'plate'}
                sub_sel = sub_sel or sel.get('t') == 'sub'
                coords, _shape = rsel.resolve(sel, v['rows'], v['cols'])
                addressed.update((side['o'], tuple(rc)) for rc in coords)
                n_side.append(len(coords))
        pairs += max(n_side)
    if sub_sel:
        col.label('recipe:slice-of-a-slice-operand')
    for n in set(before) | set(after):
        g = world.cfg.grain
        tol = (2 * pairs + 2) * g + 64 * pairs * abs(big.get(n, 0.0)) * 2.3e-16
        if abs(before.get(n, 0.0) - after.get(n, 0.0)) > tol:
            col.report(f"recipe/not-conserved/{ref.subs[n].kind}", {'substance': n, 'before': before.get(n, 0.0),
                                                                    'after': after.get(n, 0.0), 'tol': tol}, _prog_case(prog))
    for name, v in init.items():
        fw = dict(wells_of(final[name]))
        for coord, w in wells_of(v):
            if (name, coord) in addressed:
                continue
            a = fw.get(coord)
            if a is None or a['contents'] != w['contents'] or a['vol'] != w['vol']:
                col.report('recipe/unaddressed-well-changed', {'object': name, 'well': coord, 'before': w['contents'],
                                                                'after': a and a['contents']}, _prog_case(prog))
                return
    plates = sum(1 for v in init.values() if v['k'] == 'p')
    if plates and len(steps) >= 2:
        col.nontrivial_key(f"recipe|{len(steps)}|{plates}|{sub_sel}")
        col.sample(lambda: {'objects': prog['objects'], 'steps': prog['steps']})


def run_c01(col, pp):
    prof = {'max_steps': 6, 'max_dim': 3, 'sub_one_in': 3, 'n_plates': (1, 2),
            'weights': {'transfer': 8, 'create_container': 0, 'solution': 0, 'solution_from': 0, 'remove': 0, 'dilute': 0,
                        'fill_to': 0}}
    _run_programs(col, pp, check_c01, 80, 1000, prof, 'recipe')


def replay_c01(col, pp, case):
    check_c01(col, pp, RefCfg(), case)


# ---- C04: objects handed to a recipe are unchanged by declaring, adding steps and baking -----------------------

def check_c04(col, pp, cfg, prog):
    from checks.c04 import diff_path, field_of
    col.case()
    col.label('recipe')
    world = bench.World(pp, subs_json=prog['subs'])
    rr = run_recipe(pp, world.real, prog)
    outcome = 'add-raised' if rr.add_exc else 'bake-raised' if rr.bake_exc else 'baked'
    col.label(f"recipe:{outcome}")
    for label, obj, before in rr.fingerprints:
        d = diff_path(before, bench.view(obj, pp))
        if d:
            col.report(f"recipe/{label.split(':')[0]}-object-changed/{outcome}", {'object': label, 'path': d,
                                                                                  'field': field_of(d)}, _prog_case(prog))
    if rr.fingerprints and outcome != 'baked':
        col.nontrivial_key(f"recipe|{outcome}|{'+'.join(sorted({s['op'] for s in real_steps(prog)}))}")
    elif len(rr.slices) >= 1:
        col.nontrivial_key(f"recipe|baked|slices{min(len(rr.slices), 3)}|{'+'.join(sorted({s['op'] for s in real_steps(prog)}))}")
        col.sample(lambda: {'objects': prog['objects'], 'steps': prog['steps']})


def run_c04(col, pp):
    _run_programs(col, pp, check_c04, 100, 1500, {'max_steps': 10, 'max_dim': 3}, 'recipe')


def replay_c04(col, pp, case):
    check_c04(col, pp, RefCfg(), case)


# ---- C03: baked results satisfy the state invariant ------------------------------------------------------------

def check_c03(col, pp, cfg, prog):
    from checks.c03 import Feasible
    col.case()
    col.label('recipe')
    world = bench.World(pp, subs_json=prog['subs'])
    rr = run_recipe(pp, world.real, prog)
    eager = run_eager(pp, world.real, prog)
    if rr.results is None:
        exc = rr.add_exc[1] if rr.add_exc else rr.bake_exc
        col.label(f"recipe-refused:{type(exc).__name__}")
        return
    if isinstance(eager.exc, ValueError):
        # a step that cannot be carried out (the direct operation refuses it) must make the bake refuse as well
        div = first_divergence(world, pp, rr, eager, prog)
        if div == 'fill_to-slice':
            col.exclude('recipe fill_to on a slice (open finding of C07/C08)')
        else:
            failing = step_variant(real_steps(prog)[eager.failed_at])
            col.report(f"recipe/infeasible-step-baked/{failing}", {'direct_refusal': str(eager.exc)[:160],
                                                                  'step': eager.failed_at, 'diverged_at': div}, _prog_case(prog))
        return
    mon = Feasible(col)
    for key, obj in rr.results.items():
        v = bench.view(obj, pp)
        for _, w in wells_of(v):
            bad = mon.invariant(world, w)
            if bad:
                col.report(f"state/bake/{bad[0]}", {'object': key, 'vessel': w['name'], 'what': bad[1]}, _prog_case(prog))
                break
    col.nontrivial_key(f"recipe|baked|{'+'.join(sorted({s['op'] for s in real_steps(prog)}))}")


def run_c03(col, pp):
    prof = {'max_steps': 10, 'max_dim': 3, 'q_modes': ['frac'] * 6 + ['over', 'whole', 'zero', 'neg'],
            'fill_modes': ['fit'] * 6 + ['below', 'over', 'zero', 'neg'], 'keep_failing': True, 'solution_over': True,
            'weights': {'solution': 8, 'transfer': 8}}
    _run_programs(col, pp, check_c03, 250, 1500, prof, 'recipe')


def replay_c03(col, pp, case):
    check_c03(col, pp, RefCfg(), case)


# ---- C17: amounts removed in a recipe are what usage tracking reports as discarded ----------------------------------

def isolate_removes(prog):
    """put every remove step into a stage of its own (drops the generated stage markers)"""
    steps = []
    n = 0
    for s in real_steps(prog):
        if s['op'] == 'remove':
            n += 1
            steps += [{'op': 'start_stage', 'name': f"rm{n}"}, s, {'op': 'end_stage', 'name': f"rm{n}"}]
        else:
            steps.append(s)
    return dict(prog, steps=steps)


def remove_steps_as_direct(col, pp):
    """the object half of C17 inside a recipe: a remove step whose recorded before-state is the state the direct calls
    reach must record the after-state the direct remove (judged against the reference by the bench half) yields"""
    def hook(world, eager, rr, prog):
        for i, (s, rs) in enumerate(zip(real_steps(prog), rr.recipe.steps)):
            if s['op'] != 'remove' or i + 1 >= len(eager.snapshots):
                continue
            key = s['obj']['o']
            if len(rs.to) < 2 or rs.to[0] is None or rs.to[-1] is None or key not in eager.snapshots[i]:
                continue
            col.case()
            before, after = bench.view(rs.to[0], pp), bench.view(rs.to[-1], pp)
            if not same_object(world, before, eager.snapshots[i][key]):
                continue            # an earlier step already went another way (C08 attributes that)
            col.label('recipe-remove-step:compared-with-direct')
            if not same_object(world, after, eager.snapshots[i + 1][key]):
                sel = s['obj'].get('sel', {'t': 'plate'})['t'] if before['k'] == 'p' else 'container'
                col.report(f"recipe/remove/{sel}/step-result-differs-from-direct-remove", {'step': i},
                           _prog_case(prog, {'focus': {'step': i}}))
    return hook


def check_c17(col, pp, cfg, prog):
    from refchem.model import split_unit, prefix_f
    prog = isolate_removes(prog)
    pair = baked_pair(col, pp, prog, pre_hook=remove_steps_as_direct(col, pp))
    if pair is None:
        return
    world, eager, rr, prog = pair
    ref = world.ref
    steps = real_steps(prog)
    stages = stages_of(prog)
    keys = sorted(eager.env.keys())
    for nm, (s0, s1) in stages.items():
        if not nm.startswith('rm'):
            continue
        step = steps[s0]
        key = step['obj']['o']
        removed = removed_amounts(world, prog, eager, s0)
        others = [k for k in keys if k != key and eager.created_at.get(k, -1) <= s0]
        is_plate = eager.snapshots[s0][key]['k'] == 'p'
        partial = step['obj'].get('sel', {'t': 'plate'})['t'] not in ('plate', 'all')
        tag = ('plate-slice' if partial else 'plate') if is_plate else 'container'
        col.label('recipe')
        col.label(f"recipe-remove:{tag}")
        if partial and any(n in removed for _, w in wells_of(eager.snapshots[s0 + 1][key]) for n, a in w['contents'] if a > 0):
            col.label('recipe-remove:plate-slice-with-substance-left-elsewhere')
        # every substance the selector matches anywhere on the object is asked about (nothing removed => 0 discarded)
        what = step['what']
        matching = {n for _, w in wells_of(eager.snapshots[s0][key]) for n, a in w['contents']
                    if (n == world.subs[what['s']].name if 's' in what else
                        ref.subs[n].kind == {1: 'solid', 2: 'liquid', 3: 'enzyme'}[what['cls']])}
        for name in sorted(set(removed) | matching):
            amt = removed.get(name, 0.0)
            col.case()
            sub = ref.subs[name]
            si = world.by_name[name]
            fam = 'U' if sub.enzyme else 'mol'
            val = amt
            if val <= 0:        # nothing removed in the addressed wells: scale the unit by what sits elsewhere on the object
                val = sum(world.base(w).get(name, 0.0) for _, w in wells_of(eager.snapshots[s0][key]))
            unit = 'U' if sub.enzyme else next((p + 'mol' for p in ('', 'm', 'u', 'n') if val / prefix_f(p) >= 0.1), 'nmol')
            p = cfg.precision(unit)
            want = amt / prefix_f(split_unit(unit)[0])
            tol = 0.5 * 10 ** -p * 1.000001 + 8 * ref.grain_base(name) / prefix_f(split_unit(unit)[0]) + 1e-9 * want
            case = _prog_case(prog, {'focus': {'stage': nm, 'substance': name}})
            if others:
                try:
                    got, exc = rr.recipe.get_substance_used(world.real[si], nm, unit, [rr.decl[others[0]]]), None
                except Exception as e:  # noqa
                    got, exc = None, e
                if exc is not None:
                    col.report(f"recipe/remove/{tag}/substance_used-raised:{type(exc).__name__}", {'exc': repr(exc)[:160]}, case)
                elif abs(got - want) > tol:
                    col.report(f"recipe/remove/{tag}/discarded-amount-wrong/substance_used",
                               {'got': got, 'expected': want, 'unit': unit}, case)
            col.nontrivial_key(f"{'class' if 'cls' in step['what'] else 'substance'}|{tag}|recipe|{sub.kind}")
        # outflow of the object itself over the remove stage == everything removed, in volume
        import numpy
        try:
            flows, exc = rr.recipe.get_container_flows(rr.decl[key], nm, 'nL'), None
        except Exception as e:  # noqa
            flows, exc = None, e
        if exc is not None:
            col.report(f"recipe/remove/{tag}/container_flows-raised:{type(exc).__name__}", {'exc': repr(exc)[:160]},
                       _prog_case(prog, {'focus': {'stage': nm}}))
        else:
            out_total = float(numpy.sum(flows['out']))
            in_total = float(numpy.sum(flows['in']))
            want = sum(a * ref.subs[n].factor('L') for n, a in removed.items()) / 1e-9
            nw = len(wells_of(eager.snapshots[s0][key]))
            tol = nw * (0.5 * 10 ** -cfg.precision('nL')) * 1.001 + 1e-9 * want + 1e-3
            if abs(out_total - want) > tol or abs(in_total) > tol:
                col.report(f"recipe/remove/{tag}/discarded-amount-wrong/container_flows",
                           {'out': out_total, 'in': in_total, 'expected_out': want},
                           _prog_case(prog, {'focus': {'stage': nm}}))
        col.sample(lambda: {'steps': prog['steps'], 'stage': nm, 'removed': removed})


def run_c17(col, pp):
    prof = {'max_steps': 8, 'max_dim': 3, 'keep_failing': False, 'stages': False, 'dilute_new_name': False,
            'weights': {'remove': 8, 'transfer': 8, 'dilute': 0, 'solution_from': 0}, 'sub_one_in': 4}
    _run_programs(col, pp, check_c17, 100, 1500, prof, 'recipe')


def replay_c17(col, pp, case):
    check_c17(col, pp, RefCfg(), case)


# ---- C19: recipe step instructions ---------------------------------------------------------------------------------------

def check_c19(col, pp, cfg, prog):
    import re
    from checks.c19 import shown_ok, NUM, decade
    from refchem.model import split_unit, prefix_f
    pair = baked_pair(col, pp, prog)
    if pair is None:
        return
    world, eager, rr, prog = pair
    ref = world.ref
    steps = real_steps(prog)
    for i, (s, rs) in enumerate(zip(steps, rr.recipe.steps)):
        k = s['op']
        text = rs.instructions
        case = _prog_case(prog, {'focus': {'step': i}})
        if k == 'transfer':
            col.case()
            col.label('tmpl:recipe-transfer')
            m = re.match(r"^Transfer (.+?) from '(.+)' to '(.+)'\.$", re.sub(r'\s+', ' ', text))
            if not m or m.group(1) != s['q']:
                col.report('recipe-step/transfer/does-not-echo-request', {'text': text[:160], 'q': s['q']}, case)
            elif not (m.group(2).startswith(s['src']['o']) and m.group(3).startswith(s['dst']['o'])):
                col.report('recipe-step/transfer/wrong-names', {'text': text[:160]}, case)
            continue
        if k not in ('dilute', 'fill_to'):
            continue
        solvent = world.subs[s['solvent']]
        key = s['obj'] if k == 'dilute' else s['obj']['o']
        before, after = eager.snapshots[i][key], eager.snapshots[i + 1][key]
        added = []
        for (c, wb), (_, wa) in zip(wells_of(before), wells_of(after)):
            added.append((c, (world.base(wa).get(solvent.name, 0.0) - world.base(wb).get(solvent.name, 0.0))
                          * solvent.factor('L')))
        extra = 8 * ref.grain_base(solvent.name) * solvent.factor('L')
        if before['k'] == 'c':
            col.case()
            col.label(f"tmpl:recipe-{k}")
            if k == 'dilute':
                m = re.search(rf"by adding ({NUM}) (\S+) of '{re.escape(solvent.name)}'\.$", text)
            else:
                m = re.search(rf"^Fill '{re.escape(key)}' with '{re.escape(solvent.name)}' up to .+ by adding ({NUM}) (\S+)\.$", text)
            if not m:
                if k == 'dilute' and abs(added[0][1]) <= extra:
                    continue
                col.report(f"recipe-step/{k}/text-not-of-documented-form", {'text': text[:200]}, case)
                continue
            ok, true_shown = shown_ok(cfg, float(m.group(1)), m.group(2), added[0][1], extra_abs=extra)
            if not ok:
                col.report(f"recipe-step/{k}/container/wrong-amount", {'shown': f"{m.group(1)} {m.group(2)}",
                                                                       'true_in_shown_unit': true_shown}, case)
            col.nontrivial_key(f"recipe-{k}|container|{m.group(2)}|{decade(added[0][1])}")
            col.sample(lambda: {'step': s, 'text': text})
            continue
        # plate form of fill_to: "... by adding: 5.0 uL to [A1:A3, B2], 2.0 uL to [C1]."
        col.case()
        col.label('tmpl:recipe-fill-plate')
        rows, cols = before['rows'], before['cols']
        label = {}
        ambiguous = False
        for r, rn in enumerate(rows):
            for c, cn in enumerate(cols):
                if rn + cn in label:
                    ambiguous = True
                label[rn + cn] = (r, c)
        m = re.match(rf"^Fill '.+' with '{re.escape(solvent.name)}' up to .+ by adding: (.*)\.$", text, re.S)
        if not m or ambiguous:
            if not ambiguous:
                col.report("recipe-step/fill_to/plate/text-not-of-documented-form", {'text': text[:200]}, case)
            continue
        stated = {}
        bad = False
        for am in re.finditer(rf"({NUM}) (\S+) to \[([^\]]*)\]", m.group(1)):
            val, unit = float(am.group(1)), am.group(2)
            for item in am.group(3).split(', '):
                ends = item.split(':')
                if any(e not in label for e in ends):
                    bad = True
                    continue
                (r0, c0), (r1, c1) = label[ends[0]], label[ends[-1]]
                for r in range(r0, r1 + 1):
                    for c in range(c0, c1 + 1):
                        if (r, c) in stated:
                            bad = True
                        stated[(r, c)] = (val, unit)
        if bad:
            col.report("recipe-step/fill_to/plate/well-list-unreadable-or-duplicated", {'text': text[:240]}, case)
            continue
        unit_any = next(iter(stated.values()))[1] if stated else None
        groups = {}
        for c_, vu in sorted(stated.items()):
            groups.setdefault(vu, []).append(c_)
        col.label(f"fill-plate:amount-groups={min(len(groups), 3)}")
        for ws in groups.values():
            if any(ws[j][0] == ws[j + 1][0] and ws[j][1] + 1 == ws[j + 1][1] and ws[j + 2][0] > ws[j + 1][0]
                   and ws[j + 2][1] == ws[j + 1][1] + 1 for j in range(len(ws) - 2)):
                col.label('fill-plate:row-run-followed-by-well-of-a-later-row-one-column-on')
            if len({w[0] for w in ws}) > 1 and len({w[1] for w in ws}) > 1 and \
                    len(ws) != (max(w[0] for w in ws) - min(w[0] for w in ws) + 1) * (max(w[1] for w in ws) - min(w[1] for w in ws) + 1):
                col.label('fill-plate:group-is-not-a-rectangle')
        for c, vol in added:
            if c in stated:
                val, unit = stated[c]
                ok, true_shown = shown_ok(cfg, val, unit, vol, extra_abs=extra)
                if not ok:
                    col.report("recipe-step/fill_to/plate/wrong-amount", {'well': list(c), 'shown': f"{val} {unit}",
                                                                          'true_in_shown_unit': true_shown}, case)
                    break
            elif unit_any is not None:
                # a well that is not listed must have received (what rounds to) nothing
                ok, true_shown = shown_ok(cfg, 0.0, unit_any, vol, extra_abs=extra)
                if not ok:
                    col.report("recipe-step/fill_to/plate/well-not-listed", {'well': list(c), 'true_in_unit': true_shown,
                                                                             'unit': unit_any}, case)
                    break
            elif vol > extra and (vol - extra) / 1e-6 > 0.5 * 1.000001:      # exactly half a unit may round to 0 and be left out
                col.report("recipe-step/fill_to/plate/no-amounts-stated", {'well': list(c), 'added_uL': vol / 1e-6}, case)
                break
        col.nontrivial_key(f"recipe-fill|plate|{unit_any}|{len(stated)}")
        col.sample(lambda: {'step': s, 'text': text})


def run_c19(col, pp):
    prof = {'max_steps': 8, 'max_dim': 3, 'keep_failing': False, 'dilute_new_name': False,
            'weights': {'fill_to': 8, 'dilute': 6, 'transfer': 8, 'remove': 1},
            # wells from 50 uL to 25 mL so that the per-well plate text is exercised in uL and in mL
            'plate_caps': ['50 uL', '0.2 mL', '2 mL', '1e4 uL', '25 mL', '5 mL'], 'level_prefill': True}
    if col.shard % 2:
        prof['max_dim'] = 5          # room for irregular groups of equally filled wells in the per-well text
    _run_programs(col, pp, check_c19, 100, 1500, prof, 'recipe')
    # fill patterns: one plate whose wells sit on two or three levels in irregular groups, then fill_to over the plate
    # (the per-well text groups wells of equal amount into address ranges)
    pat = {'max_steps': 2, 'max_dim': 5, 'keep_failing': False, 'stages': False, 'n_plates': (1, 1), 'level_prefill': 'always',
           'weights': {'fill_to': 1, 'dilute': 0, 'transfer': 0, 'remove': 0, 'solution': 0, 'solution_from': 0, 'create_container': 0},
           'fill_plate_bias': True, 'fill_modes': ['fit'], 'plate_caps': ['0.2 mL', '2 mL', '1e4 uL', '5 mL']}
    _run_programs(col, pp, check_c19, 60, 600, pat, 'fill-patterns')


def replay_c19(col, pp, case):
    check_c19(col, pp, RefCfg(), case)
